#!/usr/bin/env python3
"""Collects confirmed seeded breaking changes into /verif/seeded/<prop>-<n>/ and writes seeded/INDEX.md.
Inputs: /tmp/seed/<prop>/OUT/<n>/{patch.diff,meta.json,demo_test.go|demo/} and /tmp/seedlogs/<prop>-<n>.log (tools/seedtest.sh output)."""
import json, os, re, shutil, glob, sys
root='/verif/seeded'
os.makedirs(root, exist_ok=True)
rows=[]
for log in sorted(glob.glob('/tmp/seedlogs/C*-*.log')):
    m=re.match(r'.*/(C\d+)-(\d+)\.log', log)
    prop,n=m.group(1),m.group(2)
    src=f'/tmp/seed/{prop}/OUT/{n}'
    if not os.path.exists(src+'/patch.diff'): continue
    txt=open(log).read()
    sm=re.search(r'SUMMARY clean_demo=(\d+) suite_with_change=(\d+) demo_with_change=(\d+)', txt)
    if not sm: continue
    clean,suite,demo=map(int,sm.groups())
    checks={}
    for cm in re.finditer(r'^check (C\d+): exit=(\d+) violations_lines=(\d+) :: (.*)$', txt, re.M):
        checks[cm.group(1)]={'exit':int(cm.group(2)),'violation_lines':int(cm.group(3)),'first':cm.group(4)[:300]}
    confirmed = clean==0 and suite==0 and demo!=0
    dst=f'{root}/{prop}-{n}'
    if os.path.exists(dst): shutil.rmtree(dst)
    os.makedirs(dst)
    shutil.copy(src+'/patch.diff', dst+'/patch.diff')
    if os.path.exists(src+'/demo_test.go'): shutil.copy(src+'/demo_test.go', dst+'/demo_test.go')
    if os.path.isdir(src+'/demo'): shutil.copytree(src+'/demo', dst+'/demo')
    try: am=json.load(open(src+'/meta.json'))
    except Exception as e: am={'note':'agent meta unreadable: %s'%e}
    meta={'property':prop,'breaks':am.get('breaks'),'needs':am.get('needs'),'files':am.get('files'),
          'agent_how_verified':am.get('how_verified'),
          'confirmed_by_me':{'demo_passes_on_clean_tree':clean==0,'suite_passes_with_change':suite==0,'demo_fails_with_change':demo!=0,
                             'how':'tools/seedtest.sh: fresh scratch worktree of /repo HEAD, private TMPDIR; demo on clean tree, git apply patch, go build ./..., go test -count=1 ./..., demo again; then git -C /repo apply, ./run.sh <check> quick, git -C /repo checkout -- .'},
          'checks_run_against_it':checks,
          'detected_by':[c for c,v in checks.items() if v['exit']==1 and v['violation_lines']>0]}
    json.dump(meta,open(dst+'/meta.json','w'),indent=1)
    rows.append((prop,n,confirmed,meta))
with open(root+'/INDEX.md','w') as f:
    f.write('# Seeded breaking changes\n\nEach was written by an independent sub-agent that saw only the property text and its own worktree, then confirmed by `tools/seedtest.sh` (suite passes with the change, demonstration fails with it and passes without) and run against the quick tier of the checks.\n\n| id | breaks / needs | confirmed | detected by | not detected by |\n|---|---|---|---|---|\n')
    for prop,n,conf,meta in rows:
        det=', '.join(meta['detected_by']) or '-'
        nd=', '.join(c for c in meta['checks_run_against_it'] if c not in meta['detected_by']) or '-'
        f.write(f"| {prop}-{n} | {(meta['breaks'] or '')[:160]} / needs: {(meta['needs'] or '')[:200]} | {'yes' if conf else 'NO'} | {det} | {nd} |\n")
print(len(rows),'seeds collected; unconfirmed:',[f'{p}-{n}' for p,n,c,m in rows if not c], 'undetected:',[f'{p}-{n}' for p,n,c,m in rows if c and not m['detected_by']])
