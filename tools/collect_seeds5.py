#!/usr/bin/env python3
"""Round 5: collects the confirmed seeded changes of /tmp/seed5/<prop>/_OUT/<n> into /verif/seeded/<prop>-r2-<n>/ and
rebuilds seeded/INDEX.md from all meta.json files (both rounds).
Logs: /tmp/seedlogs2 = first pass (checks as they were before the round-2 strengthening), /tmp/seedlogs3 = final pass."""
import json, os, re, shutil, glob
root='/verif/seeded'
def parse(log):
    if not os.path.exists(log): return None
    txt=open(log, errors='replace').read()
    sm=re.search(r'SUMMARY clean_demo=(\d+) suite_with_change=(\d+) demo_with_change=(\d+)', txt)
    if not sm: return None
    checks={}
    for cm in re.finditer(r'^check (C\d+): exit=(\d+) violations_lines=(\d+) :: (.*)$', txt, re.M):
        checks[cm.group(1)]={'exit':int(cm.group(2)),'violation_lines':int(cm.group(3)),'first':cm.group(4)[:300]}
    return tuple(map(int,sm.groups())), checks
n_new=0
for src in sorted(glob.glob('/tmp/seed5/C*/_OUT/[0-9]*')):
    m=re.match(r'/tmp/seed5/(C\d+)/_OUT/(\d+)$', src)
    if not m or not os.path.exists(src+'/patch.diff'): continue
    prop,n=m.group(1),m.group(2)
    first=parse(f'/tmp/seedlogs8/{prop}-{n}.log')
    final=parse(f'/tmp/seedlogs9/{prop}-{n}.log')
    if not first: continue
    (clean,suite,demo),checks1=first
    dst=f'{root}/{prop}-r5-{n}'
    if os.path.exists(dst): shutil.rmtree(dst)
    os.makedirs(dst)
    shutil.copy(src+'/patch.diff', dst+'/patch.diff')
    if os.path.exists(src+'/demo_test.go'): shutil.copy(src+'/demo_test.go', dst+'/demo_test.go')
    if os.path.isdir(src+'/demo'): shutil.copytree(src+'/demo', dst+'/demo')
    try: am=json.load(open(src+'/meta.json'))
    except Exception as e: am={'note':'agent meta unreadable: %s'%e}
    det=lambda ch:[c for c,v in ch.items() if v['exit']==1 and v['violation_lines']>0]
    meta={'property':prop,'round':5,'breaks':am.get('breaks'),'needs':am.get('needs'),'files':am.get('files'),
          'agent_how_verified':am.get('how_verified'),
          'confirmed_by_me':{'demo_passes_on_clean_tree':clean==0,'suite_passes_with_change':suite==0,'demo_fails_with_change':demo!=0,
                             'how':'seedtest: fresh scratch worktree of /repo HEAD, private TMPDIR; demo on clean tree, git apply patch, go build ./..., go test -count=1 ./..., demo again; then the patch is applied to a second scratch checkout that the checks are built against (VERIF_REPO), ./run.sh <check> quick, checkout undone'},
          'first_pass':{'checks':checks1,'detected_by':det(checks1)}}
    if final:
        meta['final_pass']={'checks':final[1],'detected_by':det(final[1])}
    meta['detected_by']=det(final[1]) if final else det(checks1)
    meta['checks_run_against_it']=final[1] if final else checks1
    json.dump(meta,open(dst+'/meta.json','w'),indent=1)
    n_new+=1
rows=[]
for mf in sorted(glob.glob(root+'/*/meta.json')):
    meta=json.load(open(mf)); rows.append((os.path.basename(os.path.dirname(mf)),meta))
with open(root+'/INDEX.md','w') as f:
    f.write('# Seeded breaking changes\n\nEach was written by an independent sub-agent that saw only the property text and its own worktree, then confirmed (suite passes with the change, demonstration fails with it and passes without) and run against the quick tier of the checks. Round 1 = ids `Cxx-n`, rounds 2 to 5 = ids `Cxx-r2-n` ... `Cxx-r5-n` (first pass = the checks as they stood when the agents of that round started; final pass = after the strengthening that followed).\n\n| id | breaks / needs | confirmed | detected by (final) | missed on first pass |\n|---|---|---|---|---|\n')
    for sid,meta in rows:
        c=meta.get('confirmed_by_me',{})
        conf=c.get('demo_passes_on_clean_tree') and c.get('suite_passes_with_change') and c.get('demo_fails_with_change')
        det=', '.join(meta.get('detected_by',[])) or '-'
        fp=meta.get('first_pass')
        missed='' if not fp else ('yes' if not fp['detected_by'] else 'no')
        if not fp: missed = 'see NOTES.md'
        f.write(f"| {sid} | {(meta.get('breaks') or '')[:160]} / needs: {(meta.get('needs') or '')[:200]} | {'yes' if conf else 'NO'} | {det} | {missed} |\n")
print(n_new,'round-5 seeds collected; total',len(rows),'undetected:',[s for s,m in rows if not m.get('detected_by')])
