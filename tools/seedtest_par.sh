#!/bin/bash
# usage: tools/seedtest_par.sh <seed-out-dir> <Cxx> [checks...]
# Like seedtest.sh, but never touches /repo's working tree: the change is applied in a scratch worktree, and the
# checks run from a private copy of /verif with VERIF_REPO pointing at that worktree, so several seeds can be
# examined at the same time.
set -u
SRC="$1"; PROP="$2"; shift 2
CHECKS="${*:-$PROP}"
export GOFLAGS=-mod=mod GOPROXY=off
export TMPDIR=/tmp/seedtmp.$$; mkdir -p $TMPDIR
WT=/tmp/seedcheck.$$; VC=/tmp/seedverif.$$
git -C /repo worktree add --detach "$WT" HEAD -q || exit 2
cleanup() { git -C /repo worktree remove --force "$WT" 2>/dev/null; rm -rf "$VC" "$TMPDIR" /tmp/seeddemo.$$; }
trap cleanup EXIT
run_demo() {
  pkg=$(head -1 "$SRC/demo_test.go" | sed -n 's#^// *copy to: *\([^ ]*\).*#\1#p'); pkg=${pkg%/}
  [ -z "$pkg" ] && { echo "demo_test.go lacks a 'copy to:' line"; return 99; }
  cp "$SRC/demo_test.go" "$WT/$pkg/zz_seed_demo_test.go"
  names=$(grep -o '^func Test[A-Za-z0-9_]*' "$SRC/demo_test.go" | sed 's/func //' | paste -sd'|')
  (cd "$WT/$pkg" && timeout 600 go test -count=1 -run "^($names)\$" . >/tmp/seeddemo.$$ 2>&1); rc=$?
  rm -f "$WT/$pkg/zz_seed_demo_test.go"
  return $rc
}
run_demo; c0=$?; echo "demo exit on clean tree: $c0"
git -C "$WT" apply "$SRC/patch.diff" || { echo "PATCH DOES NOT APPLY"; exit 3; }
(cd "$WT" && go build ./... ) || { echo "DOES NOT BUILD"; exit 3; }
(cd "$WT" && go test -count=1 ./... 2>&1 | grep -v "no test files" | grep -v "^ok" | head -20)
(cd "$WT" && go test -count=1 ./... >/dev/null 2>&1); s1=$?
echo "suite exit with change: $s1"
run_demo; c1=$?; echo "demo exit with change: $c1"; tail -5 /tmp/seeddemo.$$ | cut -c1-300
mkdir -p "$VC"; (cd /verif && tar cf - --exclude=./bin --exclude=./_scratch --exclude=./.git --exclude=./seeded --exclude=./replays .) | tar xf - -C "$VC"
for c in $CHECKS; do
  out=$(cd "$VC" && VERIF_REPO="$WT" VERIF_ROOT="$VC" timeout 2400 ./run.sh $c quick 2>&1); rc=$?
  nv=$(echo "$out" | grep -c '^VIOLATION')
  echo "check $c: exit=$rc violations_lines=$nv :: $(echo "$out" | grep -m1 -A1 '^VIOLATION' | tail -1 | cut -c1-400)"
  [ $rc -ne 1 ] && echo "$out" | tail -5 | cut -c1-300
done
echo "SUMMARY clean_demo=$c0 suite_with_change=$s1 demo_with_change=$c1"
