#!/bin/bash
# usage: tools/seedtest.sh <seed-out-dir> <Cxx> [checks...]
# Confirms a seeded breaking change in a scratch worktree (suite passes with it, demo fails with it and
# passes without it), then applies it to /repo, runs the given checks (default: the property's own) and undoes it.
set -u
SRC="$1"; PROP="$2"; shift 2
CHECKS="${*:-$PROP}"
export GOFLAGS=-mod=mod GOPROXY=off
export TMPDIR=/tmp/seedtmp.$$; mkdir -p $TMPDIR
WT=/tmp/seedcheck.$$
git -C /repo worktree add --detach "$WT" HEAD -q || exit 2
cleanup() { git -C /repo worktree remove --force "$WT" 2>/dev/null; git -C /repo checkout -- . 2>/dev/null; }
trap cleanup EXIT
run_demo() {
  if [ -f "$SRC/demo_test.go" ]; then
    pkg=$(head -1 "$SRC/demo_test.go" | sed -n 's#^// *copy to: *\([^ ]*\).*#\1#p'); pkg=${pkg%/}
    [ -z "$pkg" ] && { echo "demo_test.go lacks a 'copy to:' line"; return 99; }
    cp "$SRC/demo_test.go" "$WT/$pkg/zz_seed_demo_test.go"
    names=$(grep -o '^func Test[A-Za-z0-9_]*' "$SRC/demo_test.go" | sed 's/func //' | paste -sd'|')
    (cd "$WT/$pkg" && timeout 600 go test -count=1 -run "^($names)\$" . >/tmp/seeddemo.$$ 2>&1); rc=$?
    rm -f "$WT/$pkg/zz_seed_demo_test.go"
    return $rc
  elif [ -d "$SRC/demo" ]; then
    mkdir -p "$WT/OUT/N"; rm -rf "$WT/OUT/N/demo"; cp -r "$SRC/demo" "$WT/OUT/N/demo"
    (cd "$WT" && timeout 600 go run ./OUT/N/demo >/tmp/seeddemo.$$ 2>&1); rc=$?
    rm -rf "$WT/OUT"
    return $rc
  fi
  echo "no demo"; return 99
}
echo "== clean tree: demo must pass"
run_demo; c0=$?; echo "demo exit on clean tree: $c0"
echo "== apply patch"
git -C "$WT" apply "$SRC/patch.diff" || { echo "PATCH DOES NOT APPLY"; exit 3; }
(cd "$WT" && go build ./... ) || { echo "DOES NOT BUILD"; exit 3; }
echo "== suite with the change"
(cd "$WT" && go test -count=1 ./... 2>&1 | grep -v "no test files" | grep -v "^ok" | head -20); s1=${PIPESTATUS[0]}
(cd "$WT" && go test -count=1 ./... >/dev/null 2>&1); s1=$?
echo "suite exit with change: $s1"
run_demo; c1=$?; echo "demo exit with change: $c1"; tail -5 /tmp/seeddemo.$$ | cut -c1-300
rm -f /tmp/seeddemo.$$
echo "== checks on /repo with the change"
git -C /repo apply "$SRC/patch.diff" || { echo "PATCH DOES NOT APPLY TO /repo"; exit 3; }
for c in $CHECKS; do
  out=$(cd /verif && VERIF_ROOT=/tmp/seedroot.$$ timeout 1800 ./run.sh $c quick 2>&1); rc=$?
  nv=$(echo "$out" | grep -c '^VIOLATION')
  echo "check $c: exit=$rc violations_lines=$nv :: $(echo "$out" | grep -m1 -A1 '^VIOLATION' | tail -1 | cut -c1-400)"
done
git -C /repo checkout -- .
rm -rf /tmp/seedroot.$$ $TMPDIR
echo "SUMMARY clean_demo=$c0 suite_with_change=$s1 demo_with_change=$c1"
