#!/usr/bin/env python3
# Round 6: builds seeded/<Cxx>-r6-1/ from the agents' OUT directories (/tmp/r6/<Cxx>/OUT) and the logs of
# tools/seedtest_par.sh (/tmp/r6logs/<Cxx>.log first pass, /tmp/r6logs/<Cxx>.final.log after strengthening).
import json, os, re, shutil, sys
SRC, LOGS, DST = "/tmp/r6", "/tmp/r6logs", "/verif/seeded"
N = "1"
if len(sys.argv) > 1:  # second batch: collect_seeds6.py 2
    N = sys.argv[1]; SRC, LOGS = "/tmp/r6b", "/tmp/r6blogs"
def parse(path):
    if not os.path.exists(path): return None
    t = open(path, errors="replace").read()
    m = re.search(r"SUMMARY clean_demo=(\d+) suite_with_change=(\d+) demo_with_change=(\d+)", t)
    if not m: return None
    checks = {}
    for c in re.finditer(r"^check (C\d\d): exit=(\d+) violations_lines=(\d+) :: (.*)$", t, re.M):
        checks[c.group(1)] = {"exit": int(c.group(2)), "violation_lines": int(c.group(3)), "first": c.group(4)[:300]}
    return {"clean": int(m.group(1)), "suite": int(m.group(2)), "demo": int(m.group(3)), "checks": checks}
rows = []
for p in sorted(os.listdir(SRC)):
    out = os.path.join(SRC, p, "OUT")
    if not re.fullmatch(r"C\d\d", p) or not os.path.exists(os.path.join(out, "patch.diff")): continue
    first = parse(os.path.join(LOGS, p + ".log")); final = parse(os.path.join(LOGS, p + ".final.log"))
    if not first: print("no result for", p); continue
    ok = first["clean"] == 0 and first["suite"] == 0 and first["demo"] != 0
    if not ok: print("NOT CONFIRMED", p, first); continue
    d = os.path.join(DST, p + "-r6-" + N); os.makedirs(d, exist_ok=True)
    shutil.copy(os.path.join(out, "patch.diff"), d); shutil.copy(os.path.join(out, "demo_test.go"), d)
    try: am = json.load(open(os.path.join(out, "meta.json")))
    except Exception as e: am = {"summary": "(agent meta unreadable: %s)" % e}
    det1 = [c for c, r in first["checks"].items() if r["exit"] == 1 and r["violation_lines"] > 0]
    detF = [c for c, r in (final or first)["checks"].items() if r["exit"] == 1 and r["violation_lines"] > 0]
    meta = {"property": p, "round": 6, "breaks": am.get("summary", ""), "needs": am.get("needs", ""),
            "agent_how_verified": am.get("ran", ""),
            "confirmed_by_me": {"demo_passes_on_clean_tree": True, "suite_passes_with_change": True, "demo_fails_with_change": True,
                                "how": "tools/seedtest_par.sh: fresh scratch worktree of /repo HEAD; demo on the clean tree, git apply, go build ./..., go test -count=1 ./..., demo again; checks built from a private copy of /verif against that worktree (VERIF_REPO), ./run.sh <check> quick"},
            "first_pass": {"checks": first["checks"], "detected_by": det1},
            "final_pass": {"checks": (final or first)["checks"], "detected_by": detF},
            "detected_by": detF}
    json.dump(meta, open(os.path.join(d, "meta.json"), "w"), indent=1)
    rows.append((p + "-r6-" + N, am.get("summary", "")[:160].replace("|", "/").replace("\n", " "), am.get("needs", "")[:200].replace("|", "/").replace("\n", " "), ", ".join(detF) or "-", "no" if det1 else "yes"))
idx = os.path.join(DST, "INDEX.md"); txt = open(idx).read()
txt = "\n".join(l for l in txt.split("\n") if ("-r6-" + N) not in l).rstrip("\n") + "\n"
for r in rows: txt += "| %s | %s / needs: %s | yes | %s | %s |\n" % r
open(idx, "w").write(txt)
print(len(rows), "collected")
