#!/usr/bin/env python3
"""Generates MANIFEST.json from tools/manifest_src.json (claimed checks) and properties.jsonl (everything else -> not_applicable)."""
import json, os, subprocess
root = os.path.dirname(os.path.dirname(os.path.abspath(__file__)))
src = json.load(open(os.path.join(root, "tools", "manifest_src.json")))
props = [json.loads(l) for l in open(os.path.join(root, "properties.jsonl"))]
checks = []
claimed = set()
for c in src["checks"]:
    pid = c["property_id"]
    claimed.add(pid)
    checks.append({
        "property_id": pid,
        "quick_cmd": f"./run.sh {pid} quick",
        "thorough_cmd": f"./run.sh {pid} thorough",
        "evidence_file": f"/verif/evidence/{pid}.json",
        "replay_cmd_template": "bin/vcheck replay {path}",
        "engine": c["engine"],
        "level_claimed": {"category": c.get("category", "model_checking"), "text": c["text"], "design_ref": c["design_ref"]},
        "level_note": c["note"],
        "technique": c["technique"],
    })
na = []
for p in props:
    if p["id"] not in claimed:
        na.append({"property_id": p["id"], "reason": src["not_applicable"].get(p["id"], "check not built yet in this round; planned in DESIGN.md section 6")})
m = {
    "version": 1,
    "setup_cmd": "./build.sh all",
    "hooks": src["hooks"],
    "engines": src["engines"],
    "checks": checks,
    "notes": src["notes"],
    "not_applicable": na,
}
json.dump(m, open(os.path.join(root, "MANIFEST.json"), "w"), indent=1)
print("claimed", sorted(claimed), "not_applicable", [x["property_id"] for x in na])
