#!/usr/bin/env python3
import json, sys, glob
import jsonschema
m=json.load(open('/verif/MANIFEST.json')); s=json.load(open('/root/.vp/MANIFEST.schema.json'))
jsonschema.validate(m,s); print("manifest ok,", len(m["checks"]), "checks")
s=json.load(open('/root/.vp/EVIDENCE.schema.json'))
for f in sorted(glob.glob('/verif/evidence/*.json')):
    e=json.load(open(f)); jsonschema.validate(e,s); print("evidence ok", f, e["tier"], "viol", e.get("violations"))
