// Package ktrace is engine E3: a ptrace based tracer that runs a child process,
// totally orders its file-system-mutating system calls (one in flight at a time),
// snapshots the watched directory at the entry of each of them (= the crash image
// "every completed call, nothing else"), reads the child's progress markers from
// the same event stream, can hold one thread at a chosen call (consistent cuts
// between background tasks and the client) and can make a chosen call fail.
package ktrace

import (
	"crypto/sha256"
	"encoding/hex"
	"fmt"
	"os"
	"os/exec"
	"path/filepath"
	"runtime"
	"sort"
	"strings"
	"sync/atomic"
	"syscall"
	"time"
)

const (
	optSysGood  = 0x1
	optFork     = 0x2
	optVfork    = 0x4
	optClone    = 0x8
	optExitKill = 0x100000
)

// linux/amd64 syscall numbers
const (
	sysWrite     = 1
	sysOpen      = 2
	sysClose     = 3
	sysPwrite64  = 18
	sysWritev    = 20
	sysFsync     = 74
	sysFdatasync = 75
	sysTruncate  = 76
	sysFtruncate = 77
	sysRename    = 82
	sysMkdir     = 83
	sysRmdir     = 84
	sysCreat     = 85
	sysLink      = 86
	sysUnlink    = 87
	sysSymlink   = 88
	sysOpenat    = 257
	sysMkdirat   = 258
	sysUnlinkat  = 263
	sysRenameat  = 264
	sysLinkat    = 265
	sysSymlinkat = 266
	sysFallocate = 285
	sysRenameat2 = 316
)

var sysNames = map[uint64]string{sysWrite: "write", sysOpen: "open", sysPwrite64: "pwrite64", sysWritev: "writev", sysFsync: "fsync",
	sysFdatasync: "fdatasync", sysTruncate: "truncate", sysFtruncate: "ftruncate", sysRename: "rename", sysMkdir: "mkdir", sysRmdir: "rmdir",
	sysCreat: "creat", sysLink: "link", sysUnlink: "unlink", sysSymlink: "symlink", sysOpenat: "openat", sysMkdirat: "mkdirat",
	sysUnlinkat: "unlinkat", sysRenameat: "renameat", sysLinkat: "linkat", sysSymlinkat: "symlinkat", sysFallocate: "fallocate", sysRenameat2: "renameat2"}

type Event struct {
	Seq    int    `json:"seq"`
	Kind   string `json:"kind"` // "call" (mutating), "sync", "marker", "hold", "release"
	Tid    int    `json:"tid,omitempty"`
	Nr     string `json:"nr,omitempty"`
	Path   string `json:"path,omitempty"` // relative to the watched directory
	Path2  string `json:"path2,omitempty"`
	Class  string `json:"class,omitempty"`
	Bytes  int    `json:"bytes,omitempty"`
	Marker string `json:"marker,omitempty"`
	Image  int    `json:"image"` // index into Trace.Images of the directory state before this event
	Ret    int64  `json:"ret,omitempty"`
	Failed bool   `json:"failed,omitempty"` // fault injected
}

type Entry struct {
	Path string `json:"p"`
	Dir  bool   `json:"d,omitempty"`
	Blob string `json:"b,omitempty"`
	Size int    `json:"s,omitempty"`
}

type Image struct {
	Hash    string  `json:"hash"`
	Entries []Entry `json:"entries"`
}

// Hold: keep the thread that is about to issue the N-th (0-based) mutating call of Class
// stopped at syscall entry until a marker with text Release arrives (or the child is idle).
type Hold struct {
	Class   string
	N       int
	Release string
}

// Fault: make the K-th (0-based) mutating call whose class is in Classes (or any if empty) fail with Errno.
type Fault struct {
	Classes []string
	K       int
	Errno   int
	Short   bool // short write: let half of the bytes through instead of failing
	// AfterMarker: only calls issued after this marker was seen are counted
	AfterMarker string
	// Filter (optional) narrows the calls that are counted further
	Filter func(Event) bool `json:"-"`
}

type Options struct {
	Dir       string
	Argv      []string
	Env       []string
	Hold      *Hold
	Fault     *Fault
	StopAfter string // stop tracing (kill child) after this marker was seen
	Classify  func(nr, path, path2 string) string
	NoImages  bool          // only record events
	IdleAfter time.Duration // a held thread is released when the child has been silent this long (default 300ms)
	HangAfter time.Duration // if > 0: a child that is silent this long (nothing held) is classified as hung and killed
	MaxWall   time.Duration // watchdog for a wedged child (default 60s)
	Stdout    *os.File
	Stderr    *os.File
}

type Trace struct {
	Events         []Event
	Images         []Image           // distinct images in order of first appearance
	Blobs          map[string][]byte // content addressed file contents
	FinalImage     int
	ExitCode       int
	Signaled       bool
	Stopped        bool // stopped by StopAfter
	Hung           bool // no event for IdleAfter with a client call pending and nothing held
	ReleasedByIdle int
	HeldAtEnd      bool
	Stops          int
	Err            error
}

type thread struct {
	inSyscall bool
	// pending mutating call between entry and exit
	cur      *Event
	fault    bool
	faultRet int64
}

// DefaultClassify implements the path classes of SimpleDB's tasks.
func DefaultClassify(nr, path, path2 string) string {
	p := path
	switch {
	case strings.HasPrefix(p, "sstable_compaction") || strings.HasPrefix(path2, "sstable_compaction"):
		return "compactor"
	case strings.HasPrefix(p, "wal/") || p == "wal":
		if nr == "unlink" || nr == "unlinkat" {
			return "flusher"
		}
		return "client"
	case strings.HasPrefix(p, "sstable_"):
		if nr == "unlink" || nr == "unlinkat" || nr == "rmdir" || nr == "rename" || nr == "renameat" || nr == "renameat2" {
			return "compactor"
		}
		return "flusher"
	}
	return "other"
}

func readString(pid int, addr uintptr) string {
	var out []byte
	buf := make([]byte, 8)
	for len(out) < 4096 {
		_, err := syscall.PtracePeekData(pid, addr, buf)
		if err != nil {
			return string(out)
		}
		for _, b := range buf {
			if b == 0 {
				return string(out)
			}
			out = append(out, b)
		}
		addr += 8
	}
	return string(out)
}

func readBytes(pid int, addr uintptr, n int) []byte {
	if n > 256 {
		n = 256
	}
	buf := make([]byte, (n+7)/8*8)
	c, err := syscall.PtracePeekData(pid, addr, buf)
	if err != nil {
		return nil
	}
	if c > n {
		c = n
	}
	return buf[:c]
}

func fdPath(pid int, fd int) string {
	p, err := os.Readlink(fmt.Sprintf("/proc/%d/fd/%d", pid, fd))
	if err != nil {
		return ""
	}
	return p
}

// Run executes the child under the tracer. Must not be called concurrently from
// goroutines of one process that also wait for other children.
func Run(o Options) (tr *Trace) {
	runtime.LockOSThread()
	defer runtime.UnlockOSThread()
	tr = &Trace{Blobs: map[string][]byte{}}
	if o.Classify == nil {
		o.Classify = DefaultClassify
	}
	if o.IdleAfter == 0 {
		o.IdleAfter = 300 * time.Millisecond
	}
	if o.MaxWall == 0 {
		o.MaxWall = 60 * time.Second
	}
	dir := filepath.Clean(o.Dir)
	cmd := exec.Command(o.Argv[0], o.Argv[1:]...)
	devnull, _ := os.OpenFile("/dev/null", os.O_WRONLY, 0)
	defer devnull.Close()
	cmd.Stdout, cmd.Stderr = o.Stdout, o.Stderr
	cmd.ExtraFiles = []*os.File{devnull} // fd 3: marker sink
	cmd.Env = append(append(os.Environ(), "GODEBUG=asyncpreemptoff=1", "VERIF_MARKERS=3"), o.Env...)
	cmd.SysProcAttr = &syscall.SysProcAttr{Ptrace: true}
	if err := cmd.Start(); err != nil {
		tr.Err = err
		return
	}
	pid := cmd.Process.Pid
	var ws syscall.WaitStatus
	if _, err := syscall.Wait4(pid, &ws, 0, nil); err != nil {
		tr.Err = err
		return
	}
	if err := syscall.PtraceSetOptions(pid, optSysGood|optClone|optFork|optVfork|optExitKill); err != nil {
		tr.Err = err
		syscall.Kill(pid, syscall.SIGKILL)
		return
	}
	threads := map[int]*thread{pid: {}}
	imageIdx := map[string]int{}
	classCount := map[string]int{}
	markerSeen := map[string]bool{}
	faultCount := 0
	inflight := 0
	var queue []int // tids stopped at the entry of a mutating call, waiting for the in-flight one
	held := 0       // tid held by the Hold policy
	holdDone := false
	rel := func(p string) string {
		if p == dir {
			return "."
		}
		if strings.HasPrefix(p, dir+"/") {
			return strings.TrimSuffix(p[len(dir)+1:], " (deleted)")
		}
		return ""
	}
	snapshot := func() int {
		if o.NoImages {
			return -1
		}
		img := takeImage(dir, tr.Blobs)
		if i, ok := imageIdx[img.Hash]; ok {
			return i
		}
		tr.Images = append(tr.Images, img)
		imageIdx[img.Hash] = len(tr.Images) - 1
		return len(tr.Images) - 1
	}
	add := func(e Event) *Event {
		e.Seq = len(tr.Events)
		tr.Events = append(tr.Events, e)
		return &tr.Events[len(tr.Events)-1]
	}
	resume := func(tid int, sig int) { syscall.PtraceSyscall(tid, sig) }
	// admit lets a thread stopped at the entry of a mutating call proceed: snapshot, fault decision, resume.
	admit := func(tid int, ev Event, regs *syscall.PtraceRegs) {
		t := threads[tid]
		ev.Image = snapshot()
		ev.Tid = tid
		classCount[ev.Class]++
		if f := o.Fault; f != nil && (f.AfterMarker == "" || markerSeen[f.AfterMarker]) {
			match := len(f.Classes) == 0
			for _, c := range f.Classes {
				if c == ev.Class {
					match = true
				}
			}
			if match && f.Filter != nil && !f.Filter(ev) {
				match = false
			}
			if match {
				if faultCount == f.K {
					ev.Failed = true
					if f.Short && (regs.Orig_rax == sysWrite || regs.Orig_rax == sysPwrite64) && regs.Rdx > 1 {
						regs.Rdx = regs.Rdx / 2
						syscall.PtraceSetRegs(tid, regs)
					} else {
						t.fault, t.faultRet = true, -int64(f.Errno)
						regs.Orig_rax = ^uint64(0)
						syscall.PtraceSetRegs(tid, regs)
					}
				}
				faultCount++
			}
		}
		t.cur = add(ev)
		inflight = tid
		resume(tid, 0)
	}
	type parked struct {
		ev   Event
		regs syscall.PtraceRegs
	}
	park := map[int]parked{}
	start := time.Now()
	lastEvent := time.Now()
	syscall.PtraceSyscall(pid, 0)
	finish := func() {
		// kill everything that is left
		syscall.Kill(pid, syscall.SIGKILL)
		for {
			_, err := syscall.Wait4(-1, &ws, syscall.WALL, nil)
			if err != nil {
				break
			}
		}
	}
	// watchdogs run beside the (blocking) wait: they only ever kill the child, which wakes the wait up
	var lastNano atomic.Int64
	lastNano.Store(time.Now().UnixNano())
	var hungFlag, wallFlag atomic.Bool
	stopWatch := make(chan struct{})
	defer close(stopWatch)
	go func() {
		tick := time.NewTicker(20 * time.Millisecond)
		defer tick.Stop()
		for {
			select {
			case <-stopWatch:
				return
			case <-tick.C:
				if o.HangAfter > 0 && time.Since(time.Unix(0, lastNano.Load())) > o.HangAfter {
					hungFlag.Store(true)
					syscall.Kill(pid, syscall.SIGKILL)
					return
				}
				if time.Since(start) > o.MaxWall {
					wallFlag.Store(true)
					syscall.Kill(pid, syscall.SIGKILL)
					return
				}
			}
		}
	}()
	for len(threads) > 0 {
		flags := syscall.WALL
		if held != 0 {
			flags |= syscall.WNOHANG // a thread is held: poll, so that an idle child can be noticed
		}
		tid, err := syscall.Wait4(-1, &ws, flags, nil)
		if err != nil {
			break
		}
		if tid == 0 {
			if time.Since(lastEvent) > o.IdleAfter {
				// release the held thread: the client needs the background task
				tr.ReleasedByIdle++
				add(Event{Kind: "release", Marker: "idle", Image: -1})
				p := park[held]
				h := held
				held = 0
				if inflight == 0 {
					delete(park, h)
					admit(h, p.ev, &p.regs)
				} else {
					queue = append(queue, h)
				}
				lastEvent = time.Now()
				continue
			}
			time.Sleep(200 * time.Microsecond)
			continue
		}
		lastNano.Store(time.Now().UnixNano())
		lastEvent = time.Now()
		t := threads[tid]
		if t == nil {
			t = &thread{}
			threads[tid] = t
		}
		if ws.Exited() || ws.Signaled() {
			if tid == pid {
				tr.ExitCode = ws.ExitStatus()
				tr.Signaled = ws.Signaled()
			}
			delete(threads, tid)
			continue
		}
		if !ws.Stopped() {
			continue
		}
		sig := ws.StopSignal()
		if sig != syscall.SIGTRAP|0x80 {
			if sig == syscall.SIGTRAP || sig == syscall.SIGSTOP {
				resume(tid, 0) // ptrace event stop / initial stop of a new thread
			} else {
				resume(tid, int(sig))
			}
			continue
		}
		tr.Stops++
		var regs syscall.PtraceRegs
		if err := syscall.PtraceGetRegs(tid, &regs); err != nil {
			resume(tid, 0)
			continue
		}
		nr := regs.Orig_rax
		if !t.inSyscall {
			t.inSyscall = true
			// ---- syscall entry
			var ev *Event
			switch nr {
			case sysWrite, sysPwrite64, sysWritev:
				fd := int(regs.Rdi)
				if fd == 3 {
					// marker
					txt := strings.TrimSpace(string(readBytes(tid, uintptr(regs.Rsi), int(regs.Rdx))))
					markerSeen[txt] = true
					add(Event{Kind: "marker", Marker: txt, Tid: tid, Image: snapshotIfQuiet(inflight, snapshot)})
					if o.Hold != nil && held != 0 && txt == o.Hold.Release {
						add(Event{Kind: "release", Marker: txt, Image: -1})
						p := park[held]
						h := held
						held = 0
						if inflight == 0 {
							delete(park, h)
							admit(h, p.ev, &p.regs)
						} else {
							queue = append(queue, h)
						}
					}
					if o.StopAfter != "" && txt == o.StopAfter {
						tr.Stopped = true
						tr.FinalImage = snapshot()
						finish()
						return
					}
					break
				}
				if p := rel(fdPath(pid, fd)); p != "" {
					ev = &Event{Kind: "call", Nr: sysNames[nr], Path: p, Bytes: int(regs.Rdx)}
				}
			case sysOpenat, sysOpen, sysCreat:
				var path string
				var flags uint64
				switch nr {
				case sysOpenat:
					path, flags = resolveAt(pid, tid, int(int32(regs.Rdi)), uintptr(regs.Rsi)), regs.Rdx
				case sysOpen:
					path, flags = readString(tid, uintptr(regs.Rdi)), regs.Rsi
				default:
					path, flags = readString(tid, uintptr(regs.Rdi)), syscall.O_CREAT|syscall.O_TRUNC
				}
				if p := rel(path); p != "" && flags&(syscall.O_CREAT|syscall.O_TRUNC) != 0 {
					ev = &Event{Kind: "call", Nr: "openat", Path: p}
				}
			case sysMkdirat, sysMkdir, sysUnlinkat, sysUnlink, sysRmdir, sysTruncate:
				var path string
				if nr == sysMkdirat || nr == sysUnlinkat {
					path = resolveAt(pid, tid, int(int32(regs.Rdi)), uintptr(regs.Rsi))
				} else {
					path = readString(tid, uintptr(regs.Rdi))
				}
				if p := rel(path); p != "" {
					name := sysNames[nr]
					if nr == sysUnlinkat && regs.Rdx&0x200 != 0 {
						name = "rmdir"
					}
					ev = &Event{Kind: "call", Nr: strings.TrimSuffix(name, "at"), Path: p}
				}
			case sysRename, sysRenameat, sysRenameat2, sysLink, sysLinkat, sysSymlink, sysSymlinkat:
				var a, b string
				switch nr {
				case sysRename, sysLink:
					a, b = readString(tid, uintptr(regs.Rdi)), readString(tid, uintptr(regs.Rsi))
				case sysSymlink:
					a, b = readString(tid, uintptr(regs.Rsi)), ""
				case sysSymlinkat:
					a = resolveAt(pid, tid, int(int32(regs.Rsi)), uintptr(regs.Rdx))
				default:
					a = resolveAt(pid, tid, int(int32(regs.Rdi)), uintptr(regs.Rsi))
					b = resolveAt(pid, tid, int(int32(regs.Rdx)), uintptr(regs.R10))
				}
				if pa, pb := rel(a), rel(b); pa != "" || pb != "" {
					ev = &Event{Kind: "call", Nr: "rename", Path: pa, Path2: pb}
					if nr == sysLink || nr == sysLinkat || nr == sysSymlink || nr == sysSymlinkat {
						ev.Nr = "link"
					}
				}
			case sysFtruncate, sysFallocate:
				if p := rel(fdPath(pid, int(regs.Rdi))); p != "" {
					ev = &Event{Kind: "call", Nr: sysNames[nr], Path: p, Bytes: int(regs.Rsi)}
				}
			case sysFsync, sysFdatasync:
				if p := rel(fdPath(pid, int(regs.Rdi))); p != "" {
					add(Event{Kind: "sync", Nr: "fsync", Path: p, Tid: tid, Image: -1})
				}
			}
			if ev == nil {
				resume(tid, 0)
				continue
			}
			ev.Class = o.Classify(ev.Nr, ev.Path, ev.Path2)
			// hold policy
			if h := o.Hold; h != nil && !holdDone && held == 0 && ev.Class == h.Class && classCount[h.Class] == h.N {
				holdDone = true
				held = tid
				park[tid] = parked{*ev, regs}
				add(Event{Kind: "hold", Class: ev.Class, Nr: ev.Nr, Path: ev.Path, Tid: tid, Image: -1})
				continue // stays stopped
			}
			if inflight != 0 {
				park[tid] = parked{*ev, regs}
				queue = append(queue, tid)
				continue // stays stopped until the in-flight call has completed
			}
			admit(tid, *ev, &regs)
			continue
		}
		// ---- syscall exit
		t.inSyscall = false
		if t.cur != nil {
			if t.fault {
				regs.Rax = uint64(t.faultRet)
				syscall.PtraceSetRegs(tid, &regs)
				t.fault = false
			}
			t.cur.Ret = int64(regs.Rax)
			t.cur = nil
			if inflight == tid {
				inflight = 0
			}
			resume(tid, 0)
			if len(queue) > 0 && inflight == 0 {
				n := queue[0]
				queue = queue[1:]
				p := park[n]
				delete(park, n)
				admit(n, p.ev, &p.regs)
			}
			continue
		}
		resume(tid, 0)
	}
	tr.HeldAtEnd = held != 0
	tr.Hung = hungFlag.Load()
	if wallFlag.Load() {
		tr.Err = fmt.Errorf("tracer watchdog: child still running after %v", o.MaxWall)
	}
	if !tr.Stopped {
		tr.FinalImage = snapshot()
	}
	return tr
}

func snapshotIfQuiet(inflight int, snap func() int) int {
	if inflight != 0 {
		return -1
	}
	return snap()
}

func resolveAt(pid, tid int, dirfd int, addr uintptr) string {
	p := readString(tid, addr)
	if strings.HasPrefix(p, "/") {
		return filepath.Clean(p)
	}
	if dirfd == -100 { // AT_FDCWD
		cwd, _ := os.Readlink(fmt.Sprintf("/proc/%d/cwd", pid))
		return filepath.Join(cwd, p)
	}
	base := fdPath(pid, dirfd)
	if base == "" {
		return ""
	}
	return filepath.Join(base, p)
}

func takeImage(dir string, blobs map[string][]byte) Image {
	var ents []Entry
	filepath.Walk(dir, func(p string, info os.FileInfo, err error) error {
		if err != nil || p == dir {
			return nil
		}
		relp := p[len(dir)+1:]
		if info.IsDir() {
			ents = append(ents, Entry{Path: relp, Dir: true})
			return nil
		}
		b, err := os.ReadFile(p)
		if err != nil {
			return nil
		}
		h := sha256.Sum256(b)
		hs := hex.EncodeToString(h[:10])
		if _, ok := blobs[hs]; !ok {
			blobs[hs] = b
		}
		ents = append(ents, Entry{Path: relp, Blob: hs, Size: len(b)})
		return nil
	})
	// note: the random suffix of compaction directories is NOT normalised, the compaction metadata refers to it by name
	sort.Slice(ents, func(i, j int) bool { return ents[i].Path < ents[j].Path })
	h := sha256.New()
	for _, e := range ents {
		fmt.Fprintf(h, "%s|%v|%s\n", e.Path, e.Dir, e.Blob)
	}
	return Image{Hash: hex.EncodeToString(h.Sum(nil)[:12]), Entries: ents}
}

// Materialize writes an image into dir (which must be empty or absent).
func (tr *Trace) Materialize(img Image, dir string) error {
	if err := os.MkdirAll(dir, 0o755); err != nil {
		return err
	}
	for _, e := range img.Entries {
		p := filepath.Join(dir, e.Path)
		if e.Dir {
			if err := os.MkdirAll(p, 0o755); err != nil {
				return err
			}
			continue
		}
		if err := os.MkdirAll(filepath.Dir(p), 0o755); err != nil {
			return err
		}
		if err := os.WriteFile(p, tr.Blobs[e.Blob], 0o644); err != nil {
			return err
		}
	}
	return nil
}
