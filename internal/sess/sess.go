// Package sess defines the sessions a traced child process (cmd/vchild) executes
// and the dump format of its recover mode. Shared by vchild and the checks.
package sess

import (
	"encoding/json"
	"fmt"
)

type Cfg struct {
	Mem      uint64  `json:"mem,omitempty"`
	Thresh   int     `json:"thresh"`
	MaxSize  uint64  `json:"maxsize,omitempty"`
	Ratio    float32 `json:"ratio"`
	RBuf     uint64  `json:"rbuf,omitempty"`
	WBuf     uint64  `json:"wbuf,omitempty"`
	Async    bool    `json:"async,omitempty"`
	Direct   bool    `json:"direct,omitempty"`   // EnableDirectIOWAL
	Defaults bool    `json:"defaults,omitempty"` // library defaults for everything (ticker included)
}

type Op struct {
	Op   string `json:"op"` // open put del putbytes rotwait rot barrier compact gocompact joincompact close mark append appendsync walrotate walclose
	K    string `json:"k,omitempty"`
	V    string `json:"v,omitempty"` // value name, see Value
	Cfg  *Cfg   `json:"cfg,omitempty"`
	Text string `json:"text,omitempty"`
	// for byte-flavour calls with nil/empty arguments (C17)
	KNil bool `json:"knil,omitempty"`
	VNil bool `json:"vnil,omitempty"`
}

func (o Op) String() string {
	switch o.Op {
	case "put", "putbytes":
		return fmt.Sprintf("%s(%s,%s)", o.Op, o.K, o.V)
	case "del", "append", "appendsync":
		return fmt.Sprintf("%s(%s%s)", o.Op, o.K, o.V)
	case "mark":
		return "mark:" + o.Text
	case "open":
		b, _ := json.Marshal(o.Cfg)
		return "open" + string(b)
	}
	return o.Op
}

type Session struct {
	Kind   string `json:"kind"` // "db" | "wal"
	Ops    []Op   `json:"ops"`
	WalMax uint64 `json:"walmax,omitempty"`
	WalBuf int    `json:"walbuf,omitempty"`
}

// Value returns the deterministic bytes for a value name: "x", "y", "" (empty),
// "I<n>" = n incompressible bytes (seeded by n), anything else literal.
func Value(name string) []byte {
	var n int
	if _, err := fmt.Sscanf(name, "I%d", &n); err == nil && n > 0 {
		b := make([]byte, n)
		s := uint64(n)*2862933555777941757 + 3037000493
		for i := range b {
			s ^= s << 13
			s ^= s >> 7
			s ^= s << 17
			b[i] = byte(s >> 24)
		}
		return b
	}
	return []byte(name)
}

// Dump is what `vchild recover` prints.
type Dump struct {
	OpenErr string             `json:"open_err,omitempty"`
	Gets    map[string]*string `json:"gets"` // nil = not found; value names are mapped back by the caller
	GetErr  map[string]string  `json:"get_err,omitempty"`
	Tables  []string           `json:"tables"`
	Close   string             `json:"close_err,omitempty"`
	Records []string           `json:"records,omitempty"` // wal replay: hex of each record (shortened by hash when long)
}
