package core

import (
	"encoding/json"
	"os"
	"path/filepath"
	"sort"
	"time"
)

// Evidence accumulates what a run actually covered. Every number is counted
// from worker results, none is a constant.
type Evidence struct {
	id, tier   string
	seed       int64
	evals      int64
	trans      int64
	traces     int64
	states     map[string]struct{}
	outcomes   map[string]int64
	extra      map[string]int64
	samples    []string
	died       int64
	Exhaustive bool
	Rule       string
	Bounds     map[string]any
	Assume     []string
	Notes      []string
	Violations int
	KnownHits  map[string]int
	Level      string
}

func newEvidence(id, tier string, seed int64) *Evidence {
	return &Evidence{id: id, tier: tier, seed: seed, states: map[string]struct{}{}, outcomes: map[string]int64{},
		extra: map[string]int64{}, Bounds: map[string]any{}, Level: "model_checking", Exhaustive: true}
}

func (e *Evidence) add(r Result) {
	e.evals += r.Evals
	e.trans += r.Trans
	e.traces += r.Traces
	if r.Key != "" {
		e.states[r.Key] = struct{}{}
	}
	for _, k := range r.Keys {
		e.states[k] = struct{}{}
	}
	if r.Outcome != "" {
		e.outcomes[r.Outcome]++
	}
	for k, v := range r.Extra {
		e.extra[k] += v
	}
	if r.Died {
		e.died++
	}
	if r.Sample != "" && len(e.samples) < 6 {
		e.samples = append(e.samples, r.Sample)
	}
}

func (e *Evidence) AddExtra(k string, v int64) { e.extra[k] += v }
func (e *Evidence) AddState(k string)          { e.states[k] = struct{}{} }
func (e *Evidence) AddSample(s string) {
	if len(e.samples) < 8 {
		e.samples = append(e.samples, s)
	}
}
func (e *Evidence) States() int   { return len(e.states) }
func (e *Evidence) Outcomes() int { return len(e.outcomes) }

func (e *Evidence) write(wall time.Duration) {
	type kv struct {
		K string
		V int64
	}
	var oc []kv
	for k, v := range e.outcomes {
		oc = append(oc, kv{k, v})
	}
	sort.Slice(oc, func(i, j int) bool { return oc[i].V > oc[j].V })
	ocm := map[string]int64{}
	for i, x := range oc {
		if i >= 40 {
			break
		}
		ocm[x.K] = x.V
	}
	samples := make([]any, 0, len(e.samples))
	for _, s := range e.samples {
		var v any
		if json.Unmarshal([]byte(s), &v) == nil {
			samples = append(samples, v)
		} else {
			samples = append(samples, s)
		}
	}
	if len(samples) == 0 {
		samples = append(samples, "no sample recorded")
	}
	states := int64(len(e.states))
	cov := map[string]any{
		"evaluations":                   e.evals,
		"distinct_nontrivial":           states,
		"rule":                          e.Rule,
		"samples":                       samples,
		"states":                        states,
		"transitions":                   e.trans,
		"traces_validated_against_impl": e.traces,
		"exhaustive":                    e.Exhaustive,
		"distinct_outcomes":             len(e.outcomes),
		"outcome_histogram":             ocm,
		"bounds":                        e.Bounds,
		"counters":                      e.extra,
		"workers_died":                  e.died,
		"known_finding_hits":            e.KnownHits,
		"explanation":                   "every explored trace is executed on the real implementation (no abstract model); traces_validated_against_impl counts complete executions",
	}
	if len(e.Notes) > 0 {
		cov["notes"] = e.Notes
	}
	doc := map[string]any{
		"property_id": e.id,
		"tier":        e.tier,
		"seed":        e.seed,
		"level":       e.Level,
		"coverage":    cov,
		"assumptions": e.Assume,
		"wall_s":      wall.Seconds(),
		"violations":  e.Violations,
	}
	if e.Assume == nil {
		doc["assumptions"] = []string{}
	}
	b, _ := json.MarshalIndent(doc, "", " ")
	dir := filepath.Join(VerifRoot(), "evidence")
	os.MkdirAll(dir, 0o755)
	os.WriteFile(filepath.Join(dir, e.id+".json"), append(b, '\n'), 0o644)
}

// KnownFinding is one entry of /verif/known_findings.json.
type KnownFinding struct {
	Property    string `json:"property"`
	ID          string `json:"id"`
	Sig         string `json:"sig"`
	Status      string `json:"status"` // "open" or "fixed"
	Commit      string `json:"commit,omitempty"`
	Description string `json:"description"`
}

func loadKnown(prop string) []KnownFinding {
	b, err := os.ReadFile(filepath.Join(VerifRoot(), "known_findings.json"))
	if err != nil {
		return nil
	}
	var doc struct {
		Findings []KnownFinding `json:"findings"`
	}
	if err := json.Unmarshal(b, &doc); err != nil {
		panic("known_findings.json: " + err.Error())
	}
	var out []KnownFinding
	for _, k := range doc.Findings {
		if k.Property == prop {
			out = append(out, k)
		}
	}
	return out
}
