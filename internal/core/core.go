// Package core is the shared machinery of all checks: a parallel case runner
// with death attribution (workers are subprocesses), violation bookkeeping with
// known-finding matching, replay files and the evidence writer.
package core

import (
	"bufio"
	"crypto/sha256"
	"encoding/hex"
	"encoding/json"
	"fmt"
	"os"
	"os/exec"
	"path/filepath"
	"runtime"
	"sort"
	"strconv"
	"strings"
	"sync"
	"sync/atomic"
	"time"
)

// Violation is one failed oracle comparison together with a replayable case.
type Violation struct {
	// Sig is a cause-specific signature computed by a matcher predicate in the
	// check from the counterexample itself ("" = no recognised cause).
	Sig  string          `json:"sig"`
	Desc string          `json:"desc"`
	Case json.RawMessage `json:"case,omitempty"`
}

// Result is what a worker reports for one case.
type Result struct {
	Idx       int              `json:"i"`
	Key       string           `json:"k,omitempty"`  // canonical state key (hashed)
	Outcome   string           `json:"o,omitempty"`  // outcome class (vacuity counter)
	Evals     int64            `json:"e,omitempty"`  // oracle comparisons
	Trans     int64            `json:"t,omitempty"`  // operations executed on the implementation
	Traces    int64            `json:"tr,omitempty"` // complete executions
	Viol      []Violation      `json:"v,omitempty"`
	Extra     map[string]int64 `json:"x,omitempty"`
	Keys      []string         `json:"ks,omitempty"` // further distinct-state keys seen inside the case
	Out       json.RawMessage  `json:"out,omitempty"`
	Sample    string           `json:"s,omitempty"`
	Died      bool             `json:"died,omitempty"`
	Hung      bool             `json:"hung,omitempty"`
	DiedState string           `json:"diedstate,omitempty"`
	DiedMsg   string           `json:"diedmsg,omitempty"`
}

// Check is implemented once per property.
type Check interface {
	ID() string
	// Run is the parent side: it builds cases, calls ctx.Pmap and folds results.
	Run(ctx *Ctx) error
	// Case executes one case in a worker process (or in-process for replay).
	Case(w *WCtx, payload json.RawMessage) Result
}

var registry = map[string]Check{}

func Register(c Check)       { registry[c.ID()] = c }
func Lookup(id string) Check { return registry[id] }
func IDs() []string {
	var s []string
	for k := range registry {
		s = append(s, k)
	}
	sort.Strings(s)
	return s
}

// HashKey shortens an arbitrary canonical form.
func HashKey(parts ...string) string {
	h := sha256.New()
	for _, p := range parts {
		h.Write([]byte(p))
		h.Write([]byte{0})
	}
	return hex.EncodeToString(h.Sum(nil)[:12])
}

// ---------------------------------------------------------------- worker side

type WCtx struct {
	Tier    string
	Scratch string // private scratch directory of this worker
	Replay  bool
	seq     int
}

// Dir returns a fresh empty directory below the worker scratch.
func (w *WCtx) Dir() string {
	w.seq++
	d := filepath.Join(w.Scratch, "c"+strconv.Itoa(w.seq))
	os.RemoveAll(d)
	if err := os.MkdirAll(d, 0o755); err != nil {
		panic(err)
	}
	return d
}

// Clean removes everything below the worker scratch.
func (w *WCtx) Clean() {
	ents, _ := os.ReadDir(w.Scratch)
	for _, e := range ents {
		os.RemoveAll(filepath.Join(w.Scratch, e.Name()))
	}
	w.seq = 0
}

func ScratchRoot() string {
	bases := []string{"/dev/shm", os.TempDir()}
	if b := os.Getenv("VERIF_SCRATCH_BASE"); b != "" {
		// workers live below their parent's scratch directory, which the parent removes when it finishes
		bases = append([]string{b}, bases...)
	}
	for _, base := range bases {
		d := filepath.Join(base, "verif."+strconv.Itoa(os.Getpid()))
		if err := os.MkdirAll(d, 0o755); err == nil {
			return d
		}
	}
	panic("no scratch space")
}

// WorkerMain is entered as: vcheck worker <id> <tier> <casefile> <shard> <nshards> <start>
func WorkerMain(args []string) {
	id, tier, casefile := args[0], args[1], args[2]
	shard, _ := strconv.Atoi(args[3])
	n, _ := strconv.Atoi(args[4])
	start, _ := strconv.Atoi(args[5])
	c := Lookup(id)
	if c == nil {
		fmt.Fprintln(os.Stderr, "unknown check", id)
		os.Exit(2)
	}
	f, err := os.Open(casefile)
	if err != nil {
		fmt.Fprintln(os.Stderr, err)
		os.Exit(2)
	}
	defer f.Close()
	scratch := ScratchRoot()
	defer os.RemoveAll(scratch)
	w := &WCtx{Tier: tier, Scratch: scratch}
	out := bufio.NewWriterSize(os.Stdout, 1<<16)
	sc := bufio.NewScanner(f)
	sc.Buffer(make([]byte, 1<<20), 1<<28)
	idx := -1
	for sc.Scan() {
		idx++
		if idx%n != shard || idx < start {
			continue
		}
		fmt.Fprintf(out, "B %d\n", idx)
		out.Flush()
		payload := append([]byte(nil), sc.Bytes()...)
		r := c.Case(w, payload)
		r.Idx = idx
		b, _ := json.Marshal(r)
		out.WriteString("R ")
		out.Write(b)
		out.WriteString("\n")
		out.Flush()
		w.Clean()
	}
	out.Flush()
	os.RemoveAll(scratch)
}

// ---------------------------------------------------------------- parent side

type Ctx struct {
	ID       string
	Tier     string
	Seed     int64
	Workers  int
	Start    time.Time
	Deadline time.Time // soft budget: stop starting new rounds after it
	Scratch  string
	Ev       *Evidence
	self     string
	known    []KnownFinding
	knownHit map[string]int
	viol     []Violation
	violSeen map[string]bool
	// CaseTimeout: a worker that reports nothing for this long is killed and the case it
	// announced is marked Died with Hung=true (a watchdog, never an oracle by itself).
	CaseTimeout time.Duration
	// WorkerBin: run workers with this binary instead of the running one (differently instrumented build of the same code)
	WorkerBin string
	// WorkerEnv is appended to the environment of workers
	WorkerEnv []string
	// DeathIsViolation: a worker dying on a case counts as a violation
	// (sig "worker-died") unless the check handles Died itself.
	mu sync.Mutex
}

func NewCtx(id, tier string) *Ctx {
	self, _ := os.Executable()
	seed, _ := strconv.ParseInt(os.Getenv("VERIF_SEED"), 10, 64)
	w := runtime.NumCPU()
	if s := os.Getenv("VERIF_WORKERS"); s != "" {
		w, _ = strconv.Atoi(s)
	}
	if w < 1 {
		w = 1
	}
	c := &Ctx{ID: id, Tier: tier, Seed: seed, Workers: w, Start: time.Now(), self: self,
		Scratch: ScratchRoot(), knownHit: map[string]int{}, violSeen: map[string]bool{}}
	c.Ev = newEvidence(id, tier, seed)
	c.known = loadKnown(id)
	return c
}

// Budget sets the soft wall-clock budget (never an oracle: hitting it only
// clears Exhaustive and stops further rounds).
func (c *Ctx) Budget(d time.Duration) {
	if s := os.Getenv("VERIF_BUDGET_S"); s != "" {
		if v, err := strconv.Atoi(s); err == nil {
			d = time.Duration(v) * time.Second
		}
	}
	c.Deadline = c.Start.Add(d)
}

func (c *Ctx) OverBudget() bool { return !c.Deadline.IsZero() && time.Now().After(c.Deadline) }

// Pmap runs every case in worker subprocesses and returns results ordered by index.
// A worker that dies is attributed to the case it announced and restarted after it.
func (c *Ctx) Pmap(cases []json.RawMessage) []Result {
	res := make([]Result, len(cases))
	if len(cases) == 0 {
		return res
	}
	cf := filepath.Join(c.Scratch, fmt.Sprintf("cases.%d.jsonl", time.Now().UnixNano()))
	f, err := os.Create(cf)
	if err != nil {
		panic(err)
	}
	bw := bufio.NewWriterSize(f, 1<<20)
	for _, p := range cases {
		bw.Write(p)
		bw.WriteByte('\n')
	}
	bw.Flush()
	f.Close()
	defer os.Remove(cf)
	n := c.Workers
	if n > len(cases) {
		n = len(cases)
	}
	var wg sync.WaitGroup
	for s := 0; s < n; s++ {
		wg.Add(1)
		go func(shard int) {
			defer wg.Done()
			start := 0
			for {
				last, done := c.runWorker(cf, shard, n, start, res)
				if done {
					return
				}
				start = last + 1
			}
		}(s)
	}
	wg.Wait()
	for i := range res {
		res[i].Idx = i
	}
	return res
}

func (c *Ctx) runWorker(cf string, shard, n, start int, res []Result) (lastBegun int, done bool) {
	bin := c.self
	if c.WorkerBin != "" {
		bin = c.WorkerBin
	}
	cmd := exec.Command(bin, "worker", c.ID, c.Tier, cf, strconv.Itoa(shard), strconv.Itoa(n), strconv.Itoa(start))
	cmd.Env = append(append(os.Environ(), "VERIF_IS_WORKER=1", "VERIF_SCRATCH_BASE="+c.Scratch), c.WorkerEnv...)
	stdout, _ := cmd.StdoutPipe()
	var errbuf tailBuf
	cmd.Stderr = &errbuf
	if err := cmd.Start(); err != nil {
		panic(err)
	}
	begun, finished := -1, -1
	sc := bufio.NewScanner(stdout)
	sc.Buffer(make([]byte, 1<<20), 1<<28)
	to := c.CaseTimeout
	if to == 0 {
		to = 10 * time.Minute
	}
	var hung atomic.Bool
	wd := time.AfterFunc(to, func() { hung.Store(true); cmd.Process.Kill() })
	defer wd.Stop()
	for sc.Scan() {
		wd.Reset(to)
		line := sc.Text()
		switch {
		case strings.HasPrefix(line, "B "):
			begun, _ = strconv.Atoi(line[2:])
		case strings.HasPrefix(line, "R "):
			var r Result
			if err := json.Unmarshal([]byte(line[2:]), &r); err != nil {
				fmt.Fprintf(os.Stderr, "harness: bad result line from worker: %v\n", err)
				continue
			}
			res[r.Idx] = r
			finished = r.Idx
		}
	}
	err := cmd.Wait()
	if err == nil && begun == finished {
		return begun, true
	}
	if begun >= 0 && begun != finished {
		res[begun] = Result{Idx: begun, Died: true, Hung: hung.Load(), DiedMsg: fmt.Sprintf("%v: %s", err, errbuf.String())}
		if hung.Load() {
			res[begun].DiedMsg = fmt.Sprintf("watchdog: no progress for %v; stderr tail: %s", to, errbuf.String())
		}
		// a worker may leave a note about what it was doing (e.g. the schedule prefix being executed)
		wscratch := filepath.Join(c.Scratch, "verif."+strconv.Itoa(cmd.Process.Pid))
		if b, err := os.ReadFile(filepath.Join(wscratch, "current.json")); err == nil {
			res[begun].DiedState = string(b)
		}
		os.RemoveAll(wscratch)
		return begun, false
	}
	// died outside of any case: harness error
	fmt.Fprintf(os.Stderr, "HARNESS-ERROR: worker shard %d exited (%v) outside a case: %s\n", shard, err, errbuf.String())
	os.Exit(2)
	return
}

type tailBuf struct {
	mu sync.Mutex
	b  []byte
}

func (t *tailBuf) Write(p []byte) (int, error) {
	t.mu.Lock()
	defer t.mu.Unlock()
	t.b = append(t.b, p...)
	if len(t.b) > 6000 {
		t.b = t.b[len(t.b)-6000:]
	}
	return len(p), nil
}
func (t *tailBuf) String() string { t.mu.Lock(); defer t.mu.Unlock(); return string(t.b) }

// Fold adds the counters of results to the evidence and registers violations.
func (c *Ctx) Fold(rs []Result, cases []json.RawMessage) {
	for i, r := range rs {
		c.Ev.add(r)
		for _, v := range r.Viol {
			if v.Case == nil && cases != nil {
				v.Case = cases[i]
			}
			c.Report(v)
		}
	}
}

// Report registers one violation (deduplicated by sig+desc).
func (c *Ctx) Report(v Violation) {
	c.mu.Lock()
	defer c.mu.Unlock()
	if v.Sig != "" {
		for _, k := range c.known {
			if k.Sig == v.Sig && k.Status != "fixed" {
				c.knownHit[k.Sig]++
				return
			}
		}
	}
	key := v.Sig + "|" + v.Desc
	if c.violSeen[key] {
		return
	}
	c.violSeen[key] = true
	c.viol = append(c.viol, v)
}

// Finish prints KNOWN-FINDING / VIOLATION lines, writes replays and evidence, returns the exit code.
func (c *Ctx) Finish() int {
	defer os.RemoveAll(c.Scratch)
	for _, k := range c.known {
		if k.Status == "fixed" {
			continue
		}
		if c.knownHit[k.Sig] > 0 {
			fmt.Printf("KNOWN-FINDING: property=%s %s (%s; %d cases)\n", c.ID, k.Description, k.Sig, c.knownHit[k.Sig])
		}
	}
	c.Ev.KnownHits = c.knownHit
	code := 0
	if len(c.viol) > 0 {
		code = 1
		dir := filepath.Join(VerifRoot(), "replays", c.ID)
		os.MkdirAll(dir, 0o755)
		// group by sig, report at most 5 per signature and 25 overall
		sort.SliceStable(c.viol, func(i, j int) bool { return len(c.viol[i].Case) < len(c.viol[j].Case) })
		perSig := map[string]int{}
		n := 0
		for _, v := range c.viol {
			if perSig[v.Sig] >= 5 || n >= 25 {
				continue
			}
			perSig[v.Sig]++
			n++
			p := filepath.Join(dir, fmt.Sprintf("%s-%03d.json", c.Tier, n))
			b, _ := json.MarshalIndent(map[string]any{"property": c.ID, "tier": c.Tier, "sig": v.Sig, "desc": v.Desc, "case": v.Case}, "", " ")
			os.WriteFile(p, b, 0o644)
			fmt.Printf("VIOLATION property=%s replay=%s\n", c.ID, p)
			fmt.Printf("  sig=%q %s\n", v.Sig, v.Desc)
		}
		if len(c.viol) > n {
			fmt.Printf("  (%d further violations not listed)\n", len(c.viol)-n)
		}
	}
	if dbg := os.Getenv("VERIF_DEBUG"); dbg != "" {
		f, _ := os.Create(dbg)
		for _, v := range c.viol {
			fmt.Fprintf(f, "%s\t%s\n", v.Sig, v.Desc)
		}
		f.Close()
	}
	c.Ev.Violations = len(c.viol)
	c.Ev.write(time.Since(c.Start))
	fmt.Printf("%s %s: evaluations=%d states=%d transitions=%d traces=%d outcomes=%d exhaustive=%v violations=%d known=%d wall=%.1fs\n",
		c.ID, c.Tier, c.Ev.evals, len(c.Ev.states), c.Ev.trans, c.Ev.traces, len(c.Ev.outcomes), c.Ev.Exhaustive, len(c.viol), len(c.knownHit), time.Since(c.Start).Seconds())
	return code
}

func VerifRoot() string {
	if r := os.Getenv("VERIF_ROOT"); r != "" {
		return r
	}
	return "/verif"
}

// J marshals a payload.
func J(v any) json.RawMessage {
	b, err := json.Marshal(v)
	if err != nil {
		panic(err)
	}
	return b
}
