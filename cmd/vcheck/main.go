package main

import (
	"encoding/json"
	"fmt"
	"os"

	_ "verif/checks"
	"verif/internal/core"
	"verif/internal/ktrace"
)

func main() {
	if len(os.Args) < 2 {
		usage()
	}
	switch os.Args[1] {
	case "worker":
		core.WorkerMain(os.Args[2:])
	case "run":
		if len(os.Args) < 4 {
			usage()
		}
		c := core.Lookup(os.Args[2])
		if c == nil {
			fmt.Fprintln(os.Stderr, "unknown check", os.Args[2], "have", core.IDs())
			os.Exit(2)
		}
		ctx := core.NewCtx(os.Args[2], os.Args[3])
		if err := c.Run(ctx); err != nil {
			fmt.Fprintln(os.Stderr, "HARNESS-ERROR:", err)
			os.Exit(2)
		}
		os.Exit(ctx.Finish())
	case "replay":
		b, err := os.ReadFile(os.Args[2])
		if err != nil {
			fmt.Fprintln(os.Stderr, err)
			os.Exit(2)
		}
		var doc struct {
			Property string          `json:"property"`
			Tier     string          `json:"tier"`
			Case     json.RawMessage `json:"case"`
		}
		if err := json.Unmarshal(b, &doc); err != nil {
			fmt.Fprintln(os.Stderr, err)
			os.Exit(2)
		}
		c := core.Lookup(doc.Property)
		if c == nil {
			fmt.Fprintln(os.Stderr, "unknown check", doc.Property)
			os.Exit(2)
		}
		scratch := core.ScratchRoot()
		defer os.RemoveAll(scratch)
		w := &core.WCtx{Tier: doc.Tier, Scratch: scratch, Replay: true}
		r := c.Case(w, doc.Case)
		os.RemoveAll(scratch)
		if len(r.Viol) == 0 {
			fmt.Println("replay: no violation")
			os.Exit(0)
		}
		for _, v := range r.Viol {
			fmt.Printf("replay: VIOLATION property=%s sig=%q %s\n", doc.Property, v.Sig, v.Desc)
		}
		os.Exit(1)
	case "trace":
		// debug: vcheck trace <dir> <child argv...>
		opts := ktrace.Options{Dir: os.Args[2], Argv: os.Args[3:], Stdout: os.Stdout, Stderr: os.Stderr}
		if h := os.Getenv("VHOLD"); h != "" {
			var hold ktrace.Hold
			fmt.Sscanf(h, "%s %d %s", &hold.Class, &hold.N, &hold.Release)
			opts.Hold = &hold
		}
		tr := ktrace.Run(opts)
		for _, e := range tr.Events {
			fmt.Printf("%3d %-7s tid=%d %-9s %-9s %s %s bytes=%d img=%d ret=%d %s\n", e.Seq, e.Kind, e.Tid, e.Nr, e.Class, e.Path, e.Path2, e.Bytes, e.Image, e.Ret, e.Marker)
		}
		fmt.Printf("stops=%d images=%d final=%d exit=%d signaled=%v hung=%v err=%v\n", tr.Stops, len(tr.Images), tr.FinalImage, tr.ExitCode, tr.Signaled, tr.Hung, tr.Err)
	default:
		usage()
	}
}

func usage() {
	fmt.Fprintln(os.Stderr, "usage: vcheck run <Cxx> <quick|thorough> | vcheck replay <file> | vcheck worker ...")
	os.Exit(2)
}
