package main

import (
	"encoding/json"
	"fmt"
	"os"

	_ "verif/checks"
	"verif/internal/core"
)

func main() {
	if len(os.Args) < 2 {
		usage()
	}
	switch os.Args[1] {
	case "worker":
		core.WorkerMain(os.Args[2:])
	case "run":
		if len(os.Args) < 4 {
			usage()
		}
		c := core.Lookup(os.Args[2])
		if c == nil {
			fmt.Fprintln(os.Stderr, "unknown check", os.Args[2], "have", core.IDs())
			os.Exit(2)
		}
		ctx := core.NewCtx(os.Args[2], os.Args[3])
		if err := c.Run(ctx); err != nil {
			fmt.Fprintln(os.Stderr, "HARNESS-ERROR:", err)
			os.Exit(2)
		}
		os.Exit(ctx.Finish())
	case "replay":
		b, err := os.ReadFile(os.Args[2])
		if err != nil {
			fmt.Fprintln(os.Stderr, err)
			os.Exit(2)
		}
		var doc struct {
			Property string          `json:"property"`
			Tier     string          `json:"tier"`
			Case     json.RawMessage `json:"case"`
		}
		if err := json.Unmarshal(b, &doc); err != nil {
			fmt.Fprintln(os.Stderr, err)
			os.Exit(2)
		}
		c := core.Lookup(doc.Property)
		if c == nil {
			fmt.Fprintln(os.Stderr, "unknown check", doc.Property)
			os.Exit(2)
		}
		scratch := core.ScratchRoot()
		defer os.RemoveAll(scratch)
		w := &core.WCtx{Tier: doc.Tier, Scratch: scratch, Replay: true}
		r := c.Case(w, doc.Case)
		os.RemoveAll(scratch)
		if len(r.Viol) == 0 {
			fmt.Println("replay: no violation")
			os.Exit(0)
		}
		for _, v := range r.Viol {
			fmt.Printf("replay: VIOLATION property=%s sig=%q %s\n", doc.Property, v.Sig, v.Desc)
		}
		os.Exit(1)
	default:
		usage()
	}
}

func usage() {
	fmt.Fprintln(os.Stderr, "usage: vcheck run <Cxx> <quick|thorough> | vcheck replay <file> | vcheck worker ...")
	os.Exit(2)
}
