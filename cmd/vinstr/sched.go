package main

import (
	"fmt"
	"go/ast"
	"go/parser"
	"go/token"
	"os"
	"path/filepath"
	"sort"
	"strconv"
	"strings"
)

// Source-to-source rewriting for the scheduler builds, done as text edits at AST positions
// of the CURRENT files of /repo (nothing is replaced by a stale copy):
//
//   simpledb/*.go : "sync" -> verif/shim/vsync, "sync/atomic" -> verif/shim/vatomic,
//                   go f(x) -> vsched.Go("f", func(){ f(x) }),
//                   ch <- v / <-ch / range ch / close(ch) outside select -> vsched.Send/Recv/Range/Close,
//                   vsched.Point() before every statement that mentions a shared field
//   recordio/*.go : capnp bufferpool -> verif/shim/vpool; Point() before every statement of mmap_reader.go
//   sstables reader/index/iterator files : Point() before every statement

type edit struct {
	start, end int // byte offsets
	text       string
}

type fileRewriter struct {
	fset  *token.FileSet
	src   []byte
	file  *ast.File
	edits []edit
	// configuration
	chanFields   map[string]bool
	sharedFields map[string]bool
	everyStmt    bool
	usedSched    bool
}

func (fr *fileRewriter) off(p token.Pos) int { return fr.fset.Position(p).Offset }
func (fr *fileRewriter) text(n ast.Node) string {
	return string(fr.src[fr.off(n.Pos()):fr.off(n.End())])
}
func (fr *fileRewriter) replace(n ast.Node, s string) {
	fr.edits = append(fr.edits, edit{fr.off(n.Pos()), fr.off(n.End()), s})
	fr.usedSched = true
}
func (fr *fileRewriter) insertBefore(n ast.Node, s string) {
	o := fr.off(n.Pos())
	fr.edits = append(fr.edits, edit{o, o, s})
	fr.usedSched = true
}

func (fr *fileRewriter) isChanExpr(e ast.Expr) bool {
	switch x := e.(type) {
	case *ast.SelectorExpr:
		return fr.chanFields[x.Sel.Name]
	case *ast.Ident:
		return fr.chanFields[x.Name]
	}
	return false
}

// mentionsShared reports whether the statement's own expressions (not nested blocks) mention a shared field.
func (fr *fileRewriter) mentionsShared(s ast.Stmt) bool {
	found := false
	ast.Inspect(s, func(n ast.Node) bool {
		if found {
			return false
		}
		switch x := n.(type) {
		case *ast.BlockStmt, *ast.FuncLit:
			return false
		case *ast.SelectorExpr:
			if fr.sharedFields[x.Sel.Name] {
				found = true
			}
		}
		return true
	})
	return found
}

func (fr *fileRewriter) stmtList(list []ast.Stmt, inSelectComm bool) {
	for _, s := range list {
		fr.stmt(s)
	}
}

func (fr *fileRewriter) wantsPoint(s ast.Stmt) bool {
	switch s.(type) {
	case *ast.DeclStmt, *ast.EmptyStmt, *ast.BranchStmt:
		return false
	case *ast.LabeledStmt:
		// the point goes in front of the label, the labelled statement itself must stay attached to it
		return fr.wantsPoint(s.(*ast.LabeledStmt).Stmt)
	}
	if fr.everyStmt {
		return true
	}
	switch x := s.(type) {
	case *ast.BlockStmt, *ast.SelectStmt, *ast.SwitchStmt, *ast.TypeSwitchStmt:
		return false
	case *ast.IfStmt:
		probe := &ast.IfStmt{Init: x.Init, Cond: x.Cond, Body: &ast.BlockStmt{}}
		return fr.mentionsShared(probe)
	case *ast.ForStmt:
		return false
	case *ast.RangeStmt:
		return false
	}
	return fr.mentionsShared(s)
}

func (fr *fileRewriter) stmt(s ast.Stmt) { fr.stmtP(s, true) }

// block processes the statements of a body (nothing can be inserted in front of the brace itself).
func (fr *fileRewriter) block(b *ast.BlockStmt) {
	if b != nil {
		fr.stmtList(b.List, false)
	}
}

func (fr *fileRewriter) stmtP(s ast.Stmt, mayPoint bool) {
	if s == nil || (fr == nil) {
		return
	}
	if v, ok := s.(*ast.IfStmt); ok && v == nil {
		return
	}
	if mayPoint && fr.wantsPoint(s) {
		fr.insertBefore(s, "vsched.Point(); ")
	}
	switch x := s.(type) {
	case *ast.BlockStmt:
		fr.stmtList(x.List, false)
	case *ast.IfStmt:
		fr.exprsOf(x.Init)
		fr.expr(x.Cond)
		fr.block(x.Body)
		if x.Else != nil {
			fr.stmtP(x.Else, false) // "else if" / "else {": nothing can be inserted in front
		}
	case *ast.ForStmt:
		fr.exprsOf(x.Init)
		fr.expr(x.Cond)
		fr.exprsOf(x.Post)
		fr.block(x.Body)
	case *ast.RangeStmt:
		if fr.isChanExpr(x.X) {
			fr.replace(x.X, "vsched.Range("+fr.text(x.X)+")")
		} else {
			fr.expr(x.X)
		}
		fr.block(x.Body)
	case *ast.SwitchStmt:
		fr.exprsOf(x.Init)
		fr.expr(x.Tag)
		for _, c := range x.Body.List {
			fr.stmtList(c.(*ast.CaseClause).Body, false)
		}
	case *ast.TypeSwitchStmt:
		for _, c := range x.Body.List {
			fr.stmtList(c.(*ast.CaseClause).Body, false)
		}
	case *ast.SelectStmt:
		// a select over exactly two plain receives (`case <-a:` / `case <-b:`, no default) becomes
		// `switch vsched.Select2(a, b) { case 0: ...; case 1: ... }`; any other select stays a real one
		var chans []ast.Expr
		simple := len(x.Body.List) == 2
		for _, c := range x.Body.List {
			cc := c.(*ast.CommClause)
			es, ok := cc.Comm.(*ast.ExprStmt)
			if !ok {
				simple = false
				break
			}
			u, ok := es.X.(*ast.UnaryExpr)
			if !ok || u.Op != token.ARROW {
				simple = false
				break
			}
			chans = append(chans, u.X)
		}
		if simple {
			fr.usedSched = true
			fr.edits = append(fr.edits, edit{fr.off(x.Pos()), fr.off(x.Body.Lbrace), fmt.Sprintf("switch vsched.Select2(%s, %s) ", fr.text(chans[0]), fr.text(chans[1]))})
			for i, c := range x.Body.List {
				cc := c.(*ast.CommClause)
				fr.edits = append(fr.edits, edit{fr.off(cc.Pos()), fr.off(cc.Colon), fmt.Sprintf("case %d", i)})
			}
		}
		for _, c := range x.Body.List {
			fr.stmtList(c.(*ast.CommClause).Body, false)
		}
	case *ast.LabeledStmt:
		fr.stmtP(x.Stmt, false)
	case *ast.GoStmt:
		name := "goroutine"
		switch f := x.Call.Fun.(type) {
		case *ast.Ident:
			name = f.Name
		case *ast.SelectorExpr:
			name = f.Sel.Name
		}
		fr.replace(x, fmt.Sprintf("vsched.Go(%q, func() { %s })", name, fr.text(x.Call)))
	case *ast.SendStmt:
		fr.replace(x, fmt.Sprintf("vsched.Send(%s, %s)", fr.text(x.Chan), fr.text(x.Value)))
	case *ast.DeferStmt:
		fr.expr(x.Call)
	default:
		fr.exprsOf(s)
	}
}

// exprsOf rewrites the expressions of a simple statement.
func (fr *fileRewriter) exprsOf(s ast.Stmt) {
	switch x := s.(type) {
	case nil:
	case *ast.ExprStmt:
		fr.expr(x.X)
	case *ast.AssignStmt:
		if len(x.Lhs) == 2 && len(x.Rhs) == 1 {
			if u, ok := x.Rhs[0].(*ast.UnaryExpr); ok && u.Op == token.ARROW {
				fr.replace(u, "vsched.Recv2("+fr.text(u.X)+")")
				return
			}
		}
		for _, e := range x.Rhs {
			fr.expr(e)
		}
	case *ast.ReturnStmt:
		for _, e := range x.Results {
			fr.expr(e)
		}
	case *ast.IncDecStmt:
	case *ast.SendStmt:
		fr.stmt(x)
	case *ast.DeclStmt:
	}
}

func (fr *fileRewriter) expr(e ast.Expr) {
	if e == nil {
		return
	}
	ast.Inspect(e, func(n ast.Node) bool {
		switch x := n.(type) {
		case *ast.FuncLit:
			fr.block(x.Body)
			return false
		case *ast.UnaryExpr:
			if x.Op == token.ARROW {
				fr.replace(x, "vsched.Recv("+fr.text(x.X)+")")
				return false
			}
		case *ast.CallExpr:
			if id, ok := x.Fun.(*ast.Ident); ok && id.Name == "close" && len(x.Args) == 1 {
				fr.replace(x, "vsched.Close("+fr.text(x.Args[0])+")")
				return false
			}
		}
		return true
	})
}

func (fr *fileRewriter) apply(importRepl map[string][2]string) ([]byte, error) {
	for _, d := range fr.file.Decls {
		if fd, ok := d.(*ast.FuncDecl); ok && fd.Body != nil {
			fr.block(fd.Body)
		}
	}
	hasSched := false
	replaced := 0
	for _, imp := range fr.file.Imports {
		p, _ := strconv.Unquote(imp.Path.Value)
		if p == "verif/shim/vsched" {
			hasSched = true
		}
		if r, ok := importRepl[p]; ok {
			name := r[0]
			if imp.Name != nil {
				name = imp.Name.Name
			}
			start, end := fr.off(imp.Pos()), fr.off(imp.End())
			fr.edits = append(fr.edits, edit{start, end, name + " " + strconv.Quote(r[1])})
			replaced++
		}
	}
	if fr.usedSched && !hasSched {
		// add the import right after the package clause
		o := fr.off(fr.file.Name.End())
		fr.edits = append(fr.edits, edit{o, o, "\n\nimport \"verif/shim/vsched\"\n"})
	}
	sort.SliceStable(fr.edits, func(i, j int) bool { return fr.edits[i].start < fr.edits[j].start })
	var out []byte
	pos := 0
	for _, e := range fr.edits {
		if e.start < pos {
			return nil, fmt.Errorf("overlapping rewrites at offset %d (%q)", e.start, e.text)
		}
		out = append(out, fr.src[pos:e.start]...)
		out = append(out, e.text...)
		pos = e.end
	}
	out = append(out, fr.src[pos:]...)
	return out, nil
}

func collectChanFields(files []string) (map[string]bool, error) {
	out := map[string]bool{}
	fset := token.NewFileSet()
	for _, f := range files {
		af, err := parser.ParseFile(fset, f, nil, 0)
		if err != nil {
			return nil, err
		}
		ast.Inspect(af, func(n ast.Node) bool {
			if st, ok := n.(*ast.StructType); ok {
				for _, fl := range st.Fields.List {
					if _, ok := fl.Type.(*ast.ChanType); ok {
						for _, nm := range fl.Names {
							out[nm.Name] = true
						}
					}
				}
			}
			return true
		})
	}
	return out, nil
}

func goFiles(dir string) []string {
	ents, _ := os.ReadDir(dir)
	var out []string
	for _, e := range ents {
		n := e.Name()
		if strings.HasSuffix(n, ".go") && !strings.HasSuffix(n, "_test.go") {
			out = append(out, filepath.Join(dir, n))
		}
	}
	return out
}

func rewriteOne(src, dst string, chanFields, shared map[string]bool, every bool, imports map[string][2]string, ov map[string]string) (int, error) {
	b, err := os.ReadFile(src)
	if err != nil {
		return 0, err
	}
	fset := token.NewFileSet()
	af, err := parser.ParseFile(fset, src, b, parser.ParseComments)
	if err != nil {
		return 0, err
	}
	fr := &fileRewriter{fset: fset, src: b, file: af, chanFields: chanFields, sharedFields: shared, everyStmt: every}
	out, err := fr.apply(imports)
	if err != nil {
		return 0, fmt.Errorf("%s: %w", src, err)
	}
	if len(fr.edits) == 0 {
		return 0, nil
	}
	// the result must still parse
	if _, err := parser.ParseFile(token.NewFileSet(), dst, out, 0); err != nil {
		return 0, fmt.Errorf("%s: rewritten file does not parse: %w", src, err)
	}
	if err := os.WriteFile(dst, out, 0o644); err != nil {
		return 0, err
	}
	ov[src] = dst
	return len(fr.edits), nil
}

func rewriteSched(repo, out string, fine bool, ov map[string]string) error {
	total := 0
	// ---- simpledb
	sfiles := goFiles(filepath.Join(repo, "simpledb"))
	chans, err := collectChanFields(sfiles)
	if err != nil {
		return err
	}
	if len(chans) == 0 {
		return fmt.Errorf("no channel-typed struct fields found in simpledb: the rewrite rules no longer match the code")
	}
	shared := map[string]bool{"memStore": true, "readStore": true, "writeStore": true, "currentReader": true, "allSSTableReaders": true, "wal": true}
	simports := map[string][2]string{"sync": {"sync", "verif/shim/vsync"}, "sync/atomic": {"atomic", "verif/shim/vatomic"}, "time": {"time", "verif/shim/vtime"}}
	for _, f := range sfiles {
		n, err := rewriteOne(f, filepath.Join(out, "simpledb_"+filepath.Base(f)), chans, shared, false, simports, ov)
		if err != nil {
			return err
		}
		total += n
	}
	if total < 30 {
		return fmt.Errorf("only %d rewrites applied to simpledb: the rewrite rules no longer match the code", total)
	}
	if !fine {
		fmt.Fprintf(os.Stderr, "vinstr: %d rewrites in %d files, channel fields %v\n", total, len(ov), keys(chans))
		return nil
	}
	// ---- recordio: deterministic buffer pool everywhere, a point before every statement of the mmap reader
	pimports := map[string][2]string{"capnproto.org/go/capnp/v3/exp/bufferpool": {"pool", "verif/shim/vpool"}}
	for _, f := range goFiles(filepath.Join(repo, "recordio")) {
		every := filepath.Base(f) == "mmap_reader.go"
		n, err := rewriteOne(f, filepath.Join(out, "recordio_"+filepath.Base(f)), nil, nil, every, pimports, ov)
		if err != nil {
			return err
		}
		total += n
	}
	// ---- sstables: reader, indexes, iterators, stacked reader
	for _, name := range []string{"sstable_reader.go", "slice_key_index.go", "sstable_iterator.go", "super_sstable_reader.go", "skiplist_index.go", "map_key_index.go"} {
		f := filepath.Join(repo, "sstables", name)
		if _, err := os.Stat(f); err != nil {
			continue
		}
		n, err := rewriteOne(f, filepath.Join(out, "sstables_"+name), nil, nil, true, nil, ov)
		if err != nil {
			return err
		}
		total += n
	}
	if total < 300 {
		return fmt.Errorf("only %d rewrites applied: the rewrite rules no longer match the code", total)
	}
	fmt.Fprintf(os.Stderr, "vinstr: %d rewrites in %d files, channel fields %v\n", total, len(ov), keys(chans))
	return nil
}

func keys(m map[string]bool) []string {
	var out []string
	for k := range m {
		out = append(out, k)
	}
	sort.Strings(out)
	return out
}
