// vinstr rewrites the *current* source files of /repo into scratch copies and
// emits a go build -overlay file. Nothing is replaced by a stale copy.
package main

import (
	"encoding/json"
	"flag"
	"fmt"
	"os"
	"path/filepath"
)

func main() {
	repo := flag.String("repo", "/repo", "repository root")
	out := flag.String("out", "", "output directory for rewritten files + overlay.json")
	mode := flag.String("mode", "base", "base | sched | schedfine")
	flag.Parse()
	if *out == "" {
		fmt.Fprintln(os.Stderr, "need -out")
		os.Exit(2)
	}
	os.RemoveAll(*out)
	if err := os.MkdirAll(*out, 0o755); err != nil {
		panic(err)
	}
	ov := map[string]string{}
	// all modes: skiplist tower heights come from the harness
	must(rewriteImports(filepath.Join(*repo, "skiplist/map_generic.go"), filepath.Join(*out, "skiplist_map_generic.go"),
		map[string][2]string{"math/rand": {"rand", "verif/shim/vrand"}}, ov))
	if *mode == "sched" || *mode == "schedfine" {
		must(rewriteSched(*repo, *out, *mode == "schedfine", ov))
	}
	b, _ := json.MarshalIndent(map[string]any{"Replace": ov}, "", " ")
	must(os.WriteFile(filepath.Join(*out, "overlay.json"), b, 0o644))
}

func must(err error) {
	if err != nil {
		fmt.Fprintln(os.Stderr, "vinstr:", err)
		os.Exit(2)
	}
}
