package main

import (
	"bytes"
	"fmt"
	"go/ast"
	"go/format"
	"go/parser"
	"go/token"
	"os"
	"strconv"
)

// rewriteImports replaces import paths (old -> {name, new}) in one file.
func rewriteImports(src, dst string, repl map[string][2]string, ov map[string]string) error {
	fset := token.NewFileSet()
	f, err := parser.ParseFile(fset, src, nil, parser.ParseComments)
	if err != nil {
		return err
	}
	n := 0
	for _, imp := range f.Imports {
		p, _ := strconv.Unquote(imp.Path.Value)
		if r, ok := repl[p]; ok {
			imp.Path.Value = strconv.Quote(r[1])
			if imp.Name == nil {
				imp.Name = ast.NewIdent(r[0])
			}
			n++
		}
	}
	if n == 0 {
		return fmt.Errorf("%s: none of the imports to rewrite were found", src)
	}
	var buf bytes.Buffer
	if err := format.Node(&buf, fset, f); err != nil {
		return err
	}
	if err := os.WriteFile(dst, buf.Bytes(), 0o644); err != nil {
		return err
	}
	ov[src] = dst
	return nil
}
