// vchild runs one session (SimpleDB or WAL) or one recovery in a process of its
// own, so that the ptrace tracer (internal/ktrace) can stop, hold, kill or fail it
// at system-call granularity. Progress markers go to the descriptor named by
// VERIF_MARKERS (they are read by the tracer from the write system call itself).
package main

import (
	"crypto/sha256"
	"encoding/hex"
	"encoding/json"
	"errors"
	"fmt"
	"io"
	"log"
	"os"
	"path/filepath"
	"sort"
	"strconv"
	"strings"
	"sync"

	"github.com/thomasjungblut/go-sstables/recordio"
	"github.com/thomasjungblut/go-sstables/simpledb"
	"github.com/thomasjungblut/go-sstables/wal"
	"verif/internal/sess"
)

var markFd *os.File

func mark(s string) {
	if markFd != nil {
		markFd.Write([]byte(s + "\n"))
	}
}

func main() {
	if fd, err := strconv.Atoi(os.Getenv("VERIF_MARKERS")); err == nil {
		markFd = os.NewFile(uintptr(fd), "markers")
	}
	if os.Getenv("VERIF_CHILD_LOG") == "" {
		log.SetOutput(io.Discard)
	}
	if len(os.Args) < 3 {
		fmt.Fprintln(os.Stderr, "usage: vchild run <dir> <session.json> | vchild recover <dir> key... | vchild walreplay <dir>")
		os.Exit(2)
	}
	switch os.Args[1] {
	case "run":
		var s sess.Session
		b, err := os.ReadFile(os.Args[3])
		if err != nil {
			fatal(err)
		}
		if err := json.Unmarshal(b, &s); err != nil {
			fatal(err)
		}
		if s.Kind == "wal" {
			runWal(os.Args[2], s)
		} else {
			runDB(os.Args[2], s)
		}
	case "recover":
		recoverDB(os.Args[2], os.Args[3:])
	case "walreplay":
		walReplay(os.Args[2])
	default:
		os.Exit(2)
	}
}

func fatal(err error) {
	fmt.Fprintln(os.Stderr, "vchild:", err)
	os.Exit(3)
}

func options(c *sess.Cfg) []simpledb.ExtraOption {
	if c == nil || c.Defaults {
		var o []simpledb.ExtraOption
		if c != nil && c.Async {
			o = append(o, simpledb.EnableAsyncWAL())
		}
		return o
	}
	o := []simpledb.ExtraOption{simpledb.DisableCompactions(), simpledb.CompactionFileThreshold(c.Thresh), simpledb.CompactionRatio(c.Ratio)}
	if c.Mem > 0 {
		o = append(o, simpledb.MemstoreSizeBytes(c.Mem))
	}
	if c.MaxSize > 0 {
		o = append(o, simpledb.CompactionMaxSizeBytes(c.MaxSize))
	}
	if c.RBuf > 0 {
		o = append(o, simpledb.ReadBufferSizeBytes(c.RBuf))
	}
	if c.WBuf > 0 {
		o = append(o, simpledb.WriteBufferSizeBytes(c.WBuf))
	}
	if c.Async {
		o = append(o, simpledb.EnableAsyncWAL())
	}
	if c.Direct {
		o = append(o, simpledb.EnableDirectIOWAL())
	}
	return o
}

func runDB(dir string, s sess.Session) {
	var db *simpledb.DB
	var wg sync.WaitGroup
	for i, op := range s.Ops {
		var err error
		switch op.Op {
		case "open":
			db, err = simpledb.NewSimpleDB(dir, options(op.Cfg)...)
			if err == nil {
				err = db.Open()
			}
			if err == nil {
				mark("OPENED")
			}
		case "put":
			mark(fmt.Sprintf("B %d", i))
			err = db.Put(op.K, string(sess.Value(op.V)))
			if err == nil {
				mark(fmt.Sprintf("A %d", i))
			} else {
				mark(fmt.Sprintf("E %d", i))
				err = nil
			}
		case "putbytes":
			var k, v []byte
			if !op.KNil {
				k = []byte(op.K)
			}
			if !op.VNil {
				v = sess.Value(op.V)
			}
			mark(fmt.Sprintf("B %d", i))
			err = db.PutBytes(k, v)
			if err == nil {
				mark(fmt.Sprintf("A %d", i))
			} else {
				mark(fmt.Sprintf("E %d", i))
				err = nil
			}
		case "del":
			mark(fmt.Sprintf("B %d", i))
			err = db.Delete(op.K)
			if err == nil {
				mark(fmt.Sprintf("A %d", i))
			} else {
				mark(fmt.Sprintf("E %d", i))
				err = nil
			}
		case "get":
			v, gerr := db.Get(op.K)
			switch {
			case errors.Is(gerr, simpledb.ErrNotFound):
				mark(fmt.Sprintf("G %d -", i))
			case gerr != nil:
				mark(fmt.Sprintf("G %d ERR", i))
			default:
				if len(v) > 40 {
					h := sha256.Sum256([]byte(v))
					v = fmt.Sprintf("#%d:%s", len(v), hex.EncodeToString(h[:8]))
				}
				mark(fmt.Sprintf("G %d =%s", i, v))
			}
		case "rot":
			err = db.VerifRotate()
		case "rotwait":
			err = db.VerifRotateAndWait()
		case "barrier":
			db.VerifFlushBarrier()
		case "compact":
			_, _, err = db.VerifCompactOnce()
		case "gocompact":
			wg.Add(1)
			go func() {
				defer wg.Done()
				if _, _, err := db.VerifCompactOnce(); err != nil {
					fatal(fmt.Errorf("background compaction: %w", err))
				}
			}()
		case "joincompact":
			wg.Wait()
		case "close":
			err = db.Close()
			if err == nil {
				mark("CLOSED")
			}
		case "mark":
			mark(op.Text)
		case "corrupt":
			// damage on disk while the database is open: one bit of the last byte of the oldest table's data file
			tabs, _ := filepath.Glob(filepath.Join(dir, "sstable_0*"))
			sort.Strings(tabs)
			if len(tabs) == 0 {
				fatal(fmt.Errorf("corrupt: no table"))
			}
			p := filepath.Join(tabs[0], "data.rio")
			b, rerr := os.ReadFile(p)
			if rerr != nil || len(b) < 9 {
				fatal(fmt.Errorf("corrupt: %v", rerr))
			}
			b[len(b)-1] ^= 0x01
			if werr := os.WriteFile(p, b, 0o644); werr != nil {
				fatal(werr)
			}
		case "abandon":
			// the handle is dropped without Close: the directory is left the way a stopped process leaves it
			db = nil
		default:
			fatal(fmt.Errorf("unknown op %q", op.Op))
		}
		if err != nil {
			mark(fmt.Sprintf("FAIL %d %s", i, op.Op))
			fmt.Fprintf(os.Stderr, "vchild: op %d %s failed: %v\n", i, op, err)
			os.Exit(4)
		}
	}
	wg.Wait()
	mark("DONE")
}

func recoverDB(dir string, keys []string) {
	d := sess.Dump{Gets: map[string]*string{}, GetErr: map[string]string{}}
	var ropts []simpledb.ExtraOption
	if os.Getenv("VCHILD_SMALL_BUFFERS") != "" {
		// the recovering session uses small buffers: every few bytes of the table it flushes reach the file system on
		// their own (with the 4 MiB defaults a small table is written in one piece when it is closed)
		ropts = append(ropts, simpledb.WriteBufferSizeBytes(16), simpledb.ReadBufferSizeBytes(4096))
	}
	// VCHILD_RECOVER_OPTS: the recovering session is opened with other options than the defaults
	for _, o := range strings.Split(os.Getenv("VCHILD_RECOVER_OPTS"), ",") {
		switch o {
		case "nocompaction":
			ropts = append(ropts, simpledb.DisableCompactions())
		case "mem1":
			ropts = append(ropts, simpledb.MemstoreSizeBytes(1))
		case "async":
			ropts = append(ropts, simpledb.EnableAsyncWAL())
		case "thresh0":
			ropts = append(ropts, simpledb.CompactionFileThreshold(0))
		}
	}
	db, err := simpledb.NewSimpleDB(dir, ropts...)
	if err == nil {
		err = db.Open()
	}
	if err != nil {
		d.OpenErr = err.Error()
		out(d)
		return
	}
	mark("OPENED")
	for _, k := range keys {
		v, err := db.Get(k)
		switch {
		case errors.Is(err, simpledb.ErrNotFound):
			d.Gets[k] = nil
		case err != nil:
			d.GetErr[k] = err.Error()
		default:
			vv := v
			if len(vv) > 64 {
				h := sha256.Sum256([]byte(vv))
				vv = fmt.Sprintf("#%d:%s", len(v), hex.EncodeToString(h[:8]))
			}
			d.Gets[k] = &vv
		}
	}
	d.Tables = db.VerifTables()
	if err := db.Close(); err != nil {
		d.Close = err.Error()
	}
	mark("CLOSED")
	out(d)
}

func out(d sess.Dump) {
	b, _ := json.Marshal(d)
	os.Stdout.Write(append(b, '\n'))
}

func walOpts(dir string, s sess.Session) *wal.Options {
	max := s.WalMax
	if max == 0 {
		max = wal.DefaultMaxWalSize
	}
	buf := s.WalBuf
	if buf == 0 {
		buf = 4096
	}
	o, err := wal.NewWriteAheadLogOptions(wal.BasePath(dir), wal.MaximumWalFileSizeBytes(max),
		wal.WriterFactory(func(path string) (recordio.WriterI, error) {
			return recordio.NewFileWriter(recordio.Path(path), recordio.BufferSizeBytes(buf), recordio.CompressionType(recordio.CompressionTypeSnappy))
		}),
		wal.ReaderFactory(func(path string) (recordio.ReaderI, error) {
			return recordio.NewFileReader(recordio.ReaderPath(path), recordio.ReaderBufferSizeBytes(4096))
		}))
	if err != nil {
		fatal(err)
	}
	return o
}

func runWal(dir string, s sess.Session) {
	l, err := wal.NewWriteAheadLog(walOpts(dir, s))
	if err != nil {
		fatal(err)
	}
	mark("OPENED")
	for i, op := range s.Ops {
		var err error
		switch op.Op {
		case "append":
			mark(fmt.Sprintf("B %d", i))
			err = l.Append(sess.Value(op.V))
			if err == nil {
				mark(fmt.Sprintf("A %d", i))
			}
		case "appendsync":
			mark(fmt.Sprintf("B %d", i))
			err = l.AppendSync(sess.Value(op.V))
			if err == nil {
				mark(fmt.Sprintf("A %d", i))
			}
		case "walrotate":
			_, err = l.Rotate()
		case "walclose":
			err = l.Close()
		}
		if err != nil {
			fmt.Fprintf(os.Stderr, "vchild: wal op %d %s failed: %v\n", i, op, err)
			os.Exit(4)
		}
	}
	mark("DONE")
}

func walReplay(dir string) {
	d := sess.Dump{}
	rep, err := wal.NewReplayer(walOpts(dir, sess.Session{}))
	if err != nil {
		d.OpenErr = err.Error()
		out(d)
		return
	}
	err = rep.Replay(func(rec []byte) error {
		if len(rec) > 32 {
			h := sha256.Sum256(rec)
			d.Records = append(d.Records, fmt.Sprintf("#%d:%s", len(rec), hex.EncodeToString(h[:8])))
		} else {
			d.Records = append(d.Records, hex.EncodeToString(rec))
		}
		return nil
	})
	if err != nil {
		d.OpenErr = err.Error()
	}
	out(d)
}

var _ = filepath.Join
