#!/bin/bash
# usage: run.sh <Cxx> <quick|thorough>
# Rebuilds the instrumentation overlay and the checker from /repo's current
# working tree, then runs one check. Exit 0 = property held on everything
# explored, 1 = VIOLATION, 2 = harness error.
set -u
cd "$(dirname "$0")"
export GOFLAGS=-mod=mod GOPROXY=off
unset GOTOOLCHAIN GOSUMDB 2>/dev/null
ID="$1"; TIER="${2:-quick}"
export VERIF_TIER="$TIER"
./build.sh "$ID" >&2 || { echo "HARNESS-ERROR: build failed" >&2; exit 2; }
case "$ID" in
  C05) export GOMAXPROCS=1; exec bin/vsched run "$ID" "$TIER" ;;
  C18) export GOMAXPROCS=1 GORACE="halt_on_error=1 exitcode=66"; exec bin/vsched-race run "$ID" "$TIER" ;;
esac
exec bin/vcheck run "$ID" "$TIER"
