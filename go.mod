module verif

go 1.25

require github.com/thomasjungblut/go-sstables v0.0.0

replace github.com/thomasjungblut/go-sstables => /repo

replace github.com/anishathalye/porcupine v0.1.2 => github.com/tjungblu/porcupine v0.0.0-20221116095144-377185aa0569
