package checks

import (
	"bytes"
	"encoding/json"
	"errors"
	"fmt"
	"sort"
	"strings"

	"github.com/thomasjungblut/go-sstables/memstore"
	"github.com/thomasjungblut/go-sstables/skiplist"
	"github.com/thomasjungblut/go-sstables/sstables"
	"verif/internal/core"
)

// C14: the memstore is a map with tombstones; both flush variants write an equal table.

type c14 struct{}

func init()            { core.Register(c14{}) }
func (c14) ID() string { return "C14" }

type msOp struct {
	Op string `json:"op"`
	K  int    `json:"k"`           // index into the key universe, -1 = nil key
	V  int    `json:"v,omitempty"` // index into values, -1 = nil value
}

type c14Case struct {
	Kind string   `json:"kind"` // "expand" | "flush" | "deep"
	Keys []string `json:"keys"`
	Path []msOp   `json:"path"`
	Ops  []msOp   `json:"ops,omitempty"`
	// deep: every program that starts with Path[0] and has Depth operations, over Vals values (0 = the 3-op / 1-value pass)
	Depth int `json:"depth,omitempty"`
	Vals  int `json:"vals,omitempty"`
}

var c14Vals = [][]byte{[]byte("x"), []byte("yy"), {}}

func c14Alphabet(nkeys int, vals int) []msOp {
	var ops []msOp
	for _, name := range []string{"Add", "Upsert"} {
		for k := -1; k < nkeys; k++ {
			for v := -1; v < vals; v++ {
				ops = append(ops, msOp{Op: name, K: k, V: v})
			}
		}
	}
	for _, name := range []string{"Delete", "DeleteIfExists", "Tombstone"} {
		for k := -1; k < nkeys; k++ {
			ops = append(ops, msOp{Op: name, K: k})
		}
	}
	return ops
}

// reference model: key -> pointer to value; pointer to nil slice = tombstone
type msModel map[string]*[]byte

func (m msModel) clone() msModel {
	n := msModel{}
	for k, v := range m {
		n[k] = v
	}
	return n
}

func keyBytes(keys []string, k int) []byte {
	if k < 0 {
		return nil
	}
	return []byte(keys[k])
}
func valBytes(v int) []byte {
	if v < 0 {
		return nil
	}
	return append([]byte{}, c14Vals[v]...)
}

func (m msModel) apply(keys []string, op msOp) error {
	kb := keyBytes(keys, op.K)
	ks := string(kb) // nil and empty compare equal under the byte comparator
	cur, exists := m[ks]
	switch op.Op {
	case "Add", "Upsert":
		if kb == nil {
			return memstore.KeyNil
		}
		v := valBytes(op.V)
		if v == nil {
			return memstore.ValueNil
		}
		if op.Op == "Add" && exists && *cur != nil {
			return memstore.KeyAlreadyExists
		}
		m[ks] = &v
	case "Delete":
		if !exists {
			return memstore.KeyNotFound
		}
		var t []byte
		m[ks] = &t
	case "DeleteIfExists":
		if exists {
			var t []byte
			m[ks] = &t
		}
	case "Tombstone":
		var t []byte
		m[ks] = &t
	}
	return nil
}

func msApplyImpl(ms memstore.MemStoreI, keys []string, op msOp) error {
	kb := keyBytes(keys, op.K)
	switch op.Op {
	case "Add":
		return ms.Add(kb, valBytes(op.V))
	case "Upsert":
		return ms.Upsert(kb, valBytes(op.V))
	case "Delete":
		return ms.Delete(kb)
	case "DeleteIfExists":
		return ms.DeleteIfExists(kb)
	case "Tombstone":
		return ms.Tombstone(kb)
	}
	panic("bad op")
}

// msApplyShared is msApplyImpl with caller-owned value slices that are shared between calls: one backing array per
// value identity for the whole program, as a caller does that stores one slice under several keys.
func msApplyShared(ms memstore.MemStoreI, keys []string, op msOp, shared [][]byte) error {
	if (op.Op == "Add" || op.Op == "Upsert") && op.V >= 0 {
		kb := keyBytes(keys, op.K)
		if op.Op == "Add" {
			return ms.Add(kb, shared[op.V])
		}
		return ms.Upsert(kb, shared[op.V])
	}
	return msApplyImpl(ms, keys, op)
}

func (m msModel) canon() string {
	var ks []string
	for k := range m {
		ks = append(ks, k)
	}
	sort.Strings(ks)
	var b bytes.Buffer
	for _, k := range ks {
		v := m[k]
		if *v == nil {
			fmt.Fprintf(&b, "%q:T;", k)
		} else {
			fmt.Fprintf(&b, "%q:%q;", k, *v)
		}
	}
	return b.String()
}

// observe compares every observer of the memstore with the model.
func msObserve(ms memstore.MemStoreI, m msModel, keys []string, r *core.Result) (bad []string) {
	add := func(f string, a ...any) { bad = append(bad, fmt.Sprintf(f, a...)) }
	probe := append([]string{}, keys...)
	probe = append(probe, "zz-never")
	for _, k := range probe {
		cur, exists := m[k]
		v, err := ms.Get([]byte(k))
		r.Evals += 3
		switch {
		case !exists:
			if !errors.Is(err, memstore.KeyNotFound) {
				add("Get(%q)=%q,%v want KeyNotFound", k, v, err)
			}
		case *cur == nil:
			if !errors.Is(err, memstore.KeyTombstoned) {
				add("Get(%q)=%q,%v want KeyTombstoned", k, v, err)
			}
		default:
			if err != nil || v == nil || !bytes.Equal(v, *cur) {
				add("Get(%q)=%q,%v want %q", k, v, err, *cur)
			}
		}
		wantC := exists && *cur != nil
		if ms.Contains([]byte(k)) != wantC {
			add("Contains(%q)=%v want %v", k, !wantC, wantC)
		}
		wantT := exists && *cur == nil
		if ms.IsTombstoned([]byte(k)) != wantT {
			add("IsTombstoned(%q)=%v want %v", k, !wantT, wantT)
		}
	}
	r.Evals += 3
	if ms.Size() != len(m) {
		add("Size=%d want %d", ms.Size(), len(m))
	}
	if e := ms.EstimatedSizeInBytes(); e >= 1<<62 {
		add("EstimatedSizeInBytes wrapped: %d", e)
	}
	// iteration: ascending, nil for tombstones
	var ks []string
	for k := range m {
		ks = append(ks, k)
	}
	sort.Strings(ks)
	it := ms.SStableIterator()
	i := 0
	for ; i < len(ks)+2; i++ {
		k, v, err := it.Next()
		if err != nil {
			if !errors.Is(err, sstables.Done) {
				add("iterator error %v", err)
			}
			break
		}
		if i >= len(ks) {
			add("iterator yields extra key %q", k)
			break
		}
		if string(k) != ks[i] {
			add("iterator position %d key %q want %q", i, k, ks[i])
			break
		}
		w := *m[ks[i]]
		if (w == nil) != (v == nil) || !bytes.Equal(w, v) {
			add("iterator key %q value %q(nil=%v) want %q(nil=%v)", k, v, v == nil, w, w == nil)
		}
	}
	if i < len(ks) {
		add("iterator stopped after %d of %d", i, len(ks))
	}
	return bad
}

func (c c14) Run(ctx *core.Ctx) error {
	keys := []string{"", "a", "b"}
	alpha := c14Alphabet(len(keys), len(c14Vals))
	ctx.Ev.Rule = "explicit-state BFS to closure over {Add,Upsert,Delete,DeleteIfExists,Tombstone} x keys {nil,\"\",a,b} x values {nil,\"\",x,yy}; a state = canonical reference map (key -> absent|tombstone|value), successors computed by replaying the shortest path on a fresh memstore; every observer is compared in every state; then both flush variants from every reachable state; second pass: every 3-op program over 12 keys; third pass: every program of 4 operations over 2-3 keys x all values (no state merging: rejected calls and no-op calls are inside the programs), each program run a second time with one caller-owned value slice per value identity shared by all its calls (the slices must stay unchanged and every key must read its own value). non-trivial = every state except the empty one"
	ctx.Ev.Bounds["keys"] = append([]string{"<nil>"}, keys...)
	ctx.Ev.Bounds["values"] = []string{"<nil>", "", "x", "yy"}
	seen := map[string][]msOp{"": {}}
	frontier := [][]msOp{{}}
	depth := 0
	for len(frontier) > 0 {
		var cases []json.RawMessage
		for _, p := range frontier {
			cases = append(cases, core.J(c14Case{Kind: "expand", Keys: keys, Path: p, Ops: alpha}))
		}
		rs := ctx.Pmap(cases)
		ctx.Fold(rs, cases)
		var next [][]msOp
		for i, r := range rs {
			if r.Died {
				ctx.Report(core.Violation{Sig: "", Desc: "worker died: " + r.DiedMsg, Case: cases[i]})
				continue
			}
			var succ []string
			json.Unmarshal(r.Out, &succ)
			for j, k := range succ {
				if _, ok := seen[k]; !ok {
					np := append(append([]msOp{}, frontier[i]...), alpha[j])
					seen[k] = np
					next = append(next, np)
				}
			}
		}
		frontier = next
		depth++
	}
	ctx.Ev.Bounds["bfs_depth_to_closure"] = depth
	ctx.Ev.Bounds["reachable_states"] = len(seen)
	for k := range seen {
		if k != "" {
			ctx.Ev.AddState(core.HashKey("ms", k))
		}
	}
	// flush from every reachable state
	var cases []json.RawMessage
	var paths [][]msOp
	for _, p := range seen {
		paths = append(paths, p)
	}
	sort.Slice(paths, func(i, j int) bool { return fmt.Sprint(paths[i]) < fmt.Sprint(paths[j]) })
	for _, p := range paths {
		cases = append(cases, core.J(c14Case{Kind: "flush", Keys: keys, Path: p}))
	}
	rs := ctx.Pmap(cases)
	ctx.Fold(rs, cases)
	for i, r := range rs {
		if r.Died {
			ctx.Report(core.Violation{Desc: "worker died during flush: " + r.DiedMsg, Case: cases[i]})
		}
	}
	// large universe, depth 3 (thorough: also flush of every depth-2 state)
	big := []string{"", "a", "aa", "ab", "b", "ba", "c", "k\x91\x8d\x4c", "m", "x", "y", "z"}
	balpha := c14Alphabet(len(big), 1)
	cases = cases[:0]
	for _, op := range balpha {
		cases = append(cases, core.J(c14Case{Kind: "deep", Keys: big, Path: []msOp{op}}))
	}
	rs = ctx.Pmap(cases)
	ctx.Fold(rs, cases)
	for i, r := range rs {
		if r.Died {
			ctx.Report(core.Violation{Desc: "worker died: " + r.DiedMsg, Case: cases[i]})
		}
	}
	ctx.Ev.Bounds["large_universe_keys"] = len(big)
	ctx.Ev.Bounds["large_universe_depth"] = 3
	// every program (not only one path per reference state): operations that are rejected or that leave the reference map
	// unchanged may still move internal state (size accounting, slots), which the state-merging search above cannot see
	pk, pd := []string{"", "a"}, 4
	if ctx.Tier == "thorough" {
		pk, pd = []string{"", "a", "b"}, 4
	}
	palpha := c14Alphabet(len(pk), len(c14Vals))
	cases = cases[:0]
	for _, op := range palpha {
		cases = append(cases, core.J(c14Case{Kind: "deep", Keys: pk, Path: []msOp{op}, Depth: pd, Vals: len(c14Vals)}))
	}
	if ctx.Tier == "thorough" {
		for _, op := range c14Alphabet(2, len(c14Vals)) {
			for _, op2 := range c14Alphabet(2, len(c14Vals)) {
				cases = append(cases, core.J(c14Case{Kind: "deep", Keys: []string{"", "a"}, Path: []msOp{op, op2}, Depth: 5, Vals: len(c14Vals)}))
			}
		}
	}
	rs = ctx.Pmap(cases)
	ctx.Fold(rs, cases)
	for i, r := range rs {
		if r.Died {
			ctx.Report(core.Violation{Desc: "worker died: " + r.DiedMsg, Case: cases[i]})
		}
	}
	ctx.Ev.Bounds["all_programs_pass"] = fmt.Sprintf("every program of %d operations over keys %q (+nil) x values {nil,\"\",x,yy}, all observers after the last operation (thorough: also 5 operations over 2 keys)", pd, pk)
	// population pass: many distinct keys (allocation chunking, skip-list height, size accounting only show with many keys)
	nmax := 4100
	if ctx.Tier == "thorough" {
		nmax = 40000
	}
	cases = cases[:0]
	for _, order := range []string{"asc", "desc", "mixed"} {
		for _, pat := range []string{"upsert", "tomb", "alt", "add-then-delete"} {
			cases = append(cases, core.J(c14Case{Kind: "wide", Path: []msOp{{Op: order + "/" + pat, K: nmax}}}))
		}
	}
	rs = ctx.Pmap(cases)
	ctx.Fold(rs, cases)
	for i, r := range rs {
		if r.Died {
			ctx.Report(core.Violation{Desc: "worker died: " + r.DiedMsg, Case: cases[i]})
		}
	}
	ctx.Ev.Bounds["population_pass"] = fmt.Sprintf("every population 1..%d of distinct keys in 3 insertion orders x 4 fill patterns; all observers compared at every size 2^k-1, 2^k, 2^k+1 and at the end, then every key overwritten/tombstoned once more and compared again", nmax)
	return nil
}

func (c c14) Case(w *core.WCtx, payload json.RawMessage) core.Result {
	var cs c14Case
	json.Unmarshal(payload, &cs)
	var r core.Result
	defer func() {
		if p := recover(); p != nil {
			r.Viol = append(r.Viol, core.Violation{Desc: fmt.Sprintf("panic: %v path=%v", p, cs.Path)})
		}
	}()
	build := func(path []msOp) (memstore.MemStoreI, msModel, bool) {
		ms := memstore.NewMemStore()
		m := msModel{}
		for _, op := range path {
			want := m.apply(cs.Keys, op)
			got := msApplyImpl(ms, cs.Keys, op)
			r.Trans++
			if !sameErr(got, want) {
				r.Viol = append(r.Viol, core.Violation{Desc: fmt.Sprintf("after %v: %v returned %v want %v", path, op, got, want)})
				return ms, m, false
			}
		}
		return ms, m, true
	}
	switch cs.Kind {
	case "expand":
		var succ []string
		for _, op := range cs.Ops {
			ms, m, ok := build(cs.Path)
			if !ok {
				break
			}
			want := m.apply(cs.Keys, op)
			got := msApplyImpl(ms, cs.Keys, op)
			r.Trans++
			r.Evals++
			r.Traces++
			if !sameErr(got, want) {
				r.Viol = append(r.Viol, core.Violation{Desc: fmt.Sprintf("after %v: %v returned %v want %v", cs.Path, op, got, want),
					Case: core.J(c14Case{Kind: "expand", Keys: cs.Keys, Path: cs.Path, Ops: []msOp{op}})})
			}
			for _, b := range msObserve(ms, m, cs.Keys, &r) {
				r.Viol = append(r.Viol, core.Violation{Desc: fmt.Sprintf("after %v + %v: %s", cs.Path, op, b),
					Case: core.J(c14Case{Kind: "expand", Keys: cs.Keys, Path: cs.Path, Ops: []msOp{op}})})
			}
			succ = append(succ, m.canon())
			if len(r.Viol) > 5 {
				break
			}
		}
		r.Out = core.J(succ)
		r.Outcome = fmt.Sprintf("expand depth=%d ok=%v", len(cs.Path), len(r.Viol) == 0)
		if len(cs.Path) == 2 {
			r.Sample = string(core.J(map[string]any{"kind": "expand", "path": cs.Path, "successor_ops": len(cs.Ops)}))
		}
	case "flush":
		for _, withT := range []bool{false, true} {
			ms, m, ok := build(cs.Path)
			if !ok {
				break
			}
			dir := w.Dir()
			var err error
			if withT {
				err = ms.FlushWithTombstones(sstables.WriteBasePath(dir))
			} else {
				err = ms.Flush(sstables.WriteBasePath(dir))
			}
			r.Trans++
			r.Traces++
			if err != nil {
				r.Viol = append(r.Viol, core.Violation{Desc: fmt.Sprintf("flush(tombstones=%v) of state %s failed: %v", withT, m.canon(), err)})
				continue
			}
			exp := map[string]*[]byte{}
			for k, v := range m {
				if *v != nil || withT {
					exp[k] = v
				}
			}
			for _, b := range compareTable(dir, exp, append(append([]string{}, cs.Keys...), "zz-never"), &r) {
				r.Viol = append(r.Viol, core.Violation{Desc: fmt.Sprintf("flush(tombstones=%v) of state %s: %s", withT, m.canon(), b)})
			}
		}
		r.Outcome = fmt.Sprintf("flush ok=%v", len(r.Viol) == 0)
		if len(cs.Path) == 3 {
			r.Sample = string(core.J(map[string]any{"kind": "flush both variants", "path": cs.Path}))
		}
	case "deep":
		nv, depth := cs.Vals, cs.Depth
		if nv == 0 {
			nv, depth = 1, 3
		}
		alpha := c14Alphabet(len(cs.Keys), nv)
		path := append([]msOp{}, cs.Path...)
		var rec func() bool
		rec = func() bool {
			if len(path) == depth {
				ms, m, ok := build(path)
				r.Traces++
				if !ok {
					return len(r.Viol) <= 5
				}
				for _, b := range msObserve(ms, m, cs.Keys, &r) {
					r.Viol = append(r.Viol, core.Violation{Desc: fmt.Sprintf("after %v: %s", path, b),
						Case: core.J(c14Case{Kind: "expand", Keys: cs.Keys, Path: append([]msOp{}, path[:len(path)-1]...), Ops: []msOp{path[len(path)-1]}})})
				}
				if nv == 1 {
					r.Keys = append(r.Keys, core.HashKey("big", m.canon()))
				} else {
					// the same program again with one value slice per value identity shared by all calls: no call
					// may write through a slice it was given earlier, and every key still reads its own value
					shared := make([][]byte, len(c14Vals))
					for i, v := range c14Vals {
						shared[i] = append(make([]byte, 0, 8), v...)
					}
					ms2 := memstore.NewMemStore()
					for _, op := range path {
						msApplyShared(ms2, cs.Keys, op, shared)
						r.Trans++
					}
					r.Traces++
					for i, v := range c14Vals {
						if !bytes.Equal(shared[i], v) {
							r.Viol = append(r.Viol, core.Violation{Desc: fmt.Sprintf("after %v with caller-shared value slices: the caller's slice for value %q now reads %q", path, v, shared[i])})
						}
					}
					for _, b := range msObserve(ms2, m, cs.Keys, &r) {
						r.Viol = append(r.Viol, core.Violation{Desc: fmt.Sprintf("after %v with caller-shared value slices: %s", path, b)})
					}
				}
				return len(r.Viol) <= 5
			}
			for _, op := range alpha {
				path = append(path, op)
				ok := rec()
				path = path[:len(path)-1]
				if !ok {
					return false
				}
			}
			return true
		}
		rec()
		// dedupe keys inside the case to keep the result small
		sort.Strings(r.Keys)
		r.Keys = uniq(r.Keys)
		r.Outcome = fmt.Sprintf("deep ok=%v", len(r.Viol) == 0)
	case "wide":
		c14Wide(cs, &r)
	}
	return r
}

// c14Wide fills one memstore with many distinct keys and compares all observers at the sizes where
// chunked allocation or level changes would show.
func c14Wide(cs c14Case, r *core.Result) {
	spec, nmax := cs.Path[0].Op, cs.Path[0].K
	var order, pat string
	fmt.Sscanf(strings.Replace(spec, "/", " ", 1), "%s %s", &order, &pat)
	keys := make([]string, nmax)
	for i := range keys {
		keys[i] = fmt.Sprintf("k%06d", i)
	}
	seq := make([]int, nmax)
	for i := range seq {
		switch order {
		case "asc":
			seq[i] = i
		case "desc":
			seq[i] = nmax - 1 - i
		default:
			seq[i] = (i * 7919) % nmax // 7919 is prime and does not divide nmax: a permutation
		}
	}
	if order == "mixed" {
		seen := map[int]bool{}
		for _, x := range seq {
			seen[x] = true
		}
		if len(seen) != nmax {
			panic("harness: mixed order is not a permutation")
		}
	}
	check := map[int]bool{nmax: true}
	for p := 2; p <= nmax; p *= 2 {
		check[p-1], check[p], check[p+1] = true, true, true
	}
	ms := memstore.NewMemStore()
	m := msModel{}
	step := func(op msOp) bool {
		want := m.apply(keys, op)
		got := msApplyImpl(ms, keys, op)
		r.Trans++
		if !sameErr(got, want) {
			r.Viol = append(r.Viol, core.Violation{Desc: fmt.Sprintf("population pass %s at size %d: %v returned %v want %v", spec, len(m), op, got, want)})
			return false
		}
		return true
	}
	observe := func(when string) bool {
		r.Traces++
		for _, b := range msObserve(ms, m, keys[:0], r) { // size + full iteration
			r.Viol = append(r.Viol, core.Violation{Desc: fmt.Sprintf("population pass %s %s (size %d): %s", spec, when, len(m), b)})
		}
		// point lookups of every key inserted so far
		var have []string
		for k := range m {
			have = append(have, k)
		}
		sort.Strings(have)
		for _, b := range msObserve(ms, m, have, r) {
			r.Viol = append(r.Viol, core.Violation{Desc: fmt.Sprintf("population pass %s %s (size %d): %s", spec, when, len(m), b)})
			if len(r.Viol) > 5 {
				return false
			}
		}
		return len(r.Viol) == 0
	}
	for i, k := range seq {
		var ops []msOp
		switch pat {
		case "upsert":
			ops = []msOp{{Op: "Upsert", K: k, V: i % 3}}
		case "tomb":
			ops = []msOp{{Op: "Tombstone", K: k}}
		case "alt":
			if i%2 == 0 {
				ops = []msOp{{Op: "Upsert", K: k, V: i % 3}}
			} else {
				ops = []msOp{{Op: "Tombstone", K: k}}
			}
		default:
			ops = []msOp{{Op: "Add", K: k, V: i % 3}}
			if i%3 == 0 {
				ops = append(ops, msOp{Op: "Delete", K: k})
			}
		}
		for _, op := range ops {
			if !step(op) {
				return
			}
		}
		if check[i+1] && !observe("while filling") {
			return
		}
	}
	// second round over every key: the state of one key must not depend on the others
	for i, k := range seq {
		op := msOp{Op: "Upsert", K: k, V: (i + 1) % 3}
		if i%4 == 1 {
			op = msOp{Op: "Tombstone", K: k}
		}
		if !step(op) {
			return
		}
	}
	observe("after the second round")
	r.Keys = append(r.Keys, core.HashKey("wide", spec))
	r.Outcome = fmt.Sprintf("wide ok=%v", len(r.Viol) == 0)
	r.Sample = string(core.J(map[string]any{"kind": "population pass", "spec": spec, "keys": nmax}))
}

func uniq(s []string) []string {
	out := s[:0]
	for i, x := range s {
		if i == 0 || x != s[i-1] {
			out = append(out, x)
		}
	}
	return out
}

func sameErr(got, want error) bool {
	if want == nil {
		return got == nil
	}
	return errors.Is(got, want)
}

// compareTable opens the table at dir with default options and compares Get,
// Contains, Scan and metadata with exp (pointer to nil = nil value).
func compareTable(dir string, exp map[string]*[]byte, probe []string, r *core.Result) (bad []string) {
	add := func(f string, a ...any) { bad = append(bad, fmt.Sprintf(f, a...)) }
	rd, err := sstables.NewSSTableReader(sstables.ReadBasePath(dir), sstables.ReadWithKeyComparator(skiplist.BytesComparator{}))
	if err != nil {
		add("reader open failed: %v", err)
		return
	}
	defer rd.Close()
	for _, k := range probe {
		w, ok := exp[k]
		c, err := rd.Contains([]byte(k))
		r.Evals += 2
		if err != nil || c != ok {
			add("table Contains(%q)=%v,%v want %v", k, c, err, ok)
		}
		v, err := rd.Get([]byte(k))
		if !ok {
			if !errors.Is(err, sstables.NotFound) {
				add("table Get(%q)=%q,%v want NotFound", k, v, err)
			}
		} else if err != nil || (v == nil) != (*w == nil) || !bytes.Equal(v, *w) {
			add("table Get(%q)=%q(nil=%v),%v want %q(nil=%v)", k, v, v == nil, err, *w, *w == nil)
		}
	}
	var ks []string
	for k := range exp {
		ks = append(ks, k)
	}
	sort.Strings(ks)
	it, err := rd.Scan()
	if err != nil {
		add("Scan failed: %v", err)
		return
	}
	i := 0
	for ; ; i++ {
		k, v, err := it.Next()
		if err != nil {
			if !errors.Is(err, sstables.Done) {
				add("scan error %v", err)
			}
			break
		}
		r.Evals++
		if i >= len(ks) {
			add("scan yields extra key %q", k)
			break
		}
		w := *exp[ks[i]]
		if string(k) != ks[i] || (v == nil) != (w == nil) || !bytes.Equal(v, w) {
			add("scan position %d = %q:%q(nil=%v) want %q:%q(nil=%v)", i, k, v, v == nil, ks[i], w, w == nil)
		}
	}
	if i < len(ks) {
		add("scan stopped after %d of %d", i, len(ks))
	}
	md := rd.MetaData()
	nulls := 0
	for _, v := range exp {
		if *v == nil {
			nulls++
		}
	}
	r.Evals++
	if md.NumRecords != uint64(len(exp)) || md.NullValues != uint64(nulls) {
		add("metadata NumRecords=%d NullValues=%d want %d/%d", md.NumRecords, md.NullValues, len(exp), nulls)
	}
	return
}
