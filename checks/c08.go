package checks

import (
	"bytes"
	"encoding/json"
	"errors"
	"fmt"
	"path/filepath"
	"sort"

	"github.com/thomasjungblut/go-sstables/skiplist"
	"github.com/thomasjungblut/go-sstables/sstables"
	"verif/internal/core"
)

// C08: merging or stacking tables equals the latest-wins union of their contents.

type c08 struct{}

func init()            { core.Register(c08{}) }
func (c08) ID() string { return "C08" }

type c08Case struct {
	K     int   `json:"k"`
	First int   `json:"first"`          // table code of the oldest table
	Opts  int   `json:"opts"`           // options per key: 3 = {absent,value,tombstone}, 4 adds the empty value
	Only  []int `json:"only,omitempty"` // replay: exact list of table codes
}

var c08Keys = [][]byte{{}, []byte("a"), []byte("b")}

// table code -> content for a slot. digit per key: 0 absent, 1 value, 2 tombstone, 3 empty value
func c08Table(code, slot, opts int) []kv {
	var out []kv
	for ki, k := range c08Keys {
		d := code % opts
		code /= opts
		switch d {
		case 1:
			out = append(out, kv{k, []byte(fmt.Sprintf("v%d%s", slot, string(k)))})
		case 2:
			out = append(out, kv{k, nil})
		case 3:
			out = append(out, kv{k, []byte{}})
		}
		_ = ki
	}
	return out
}

func ipow(b, e int) int {
	r := 1
	for i := 0; i < e; i++ {
		r *= b
	}
	return r
}

func (c c08) Run(ctx *core.Ctx) error {
	var cases []json.RawMessage
	cases = append(cases, core.J(c08Case{K: 0, Opts: 3}))
	maxK := 3
	for k := 1; k <= maxK; k++ {
		for f := 0; f < 27; f++ {
			cases = append(cases, core.J(c08Case{K: k, First: f, Opts: 3}))
		}
	}
	k4 := 2
	if ctx.Tier == "thorough" {
		k4 = 3
		for f := 0; f < 27; f++ {
			for s := 0; s < 27; s++ {
				cases = append(cases, core.J(c08Case{K: 4, First: f + 27*s, Opts: 3}))
			}
		}
	}
	for k := 1; k <= k4; k++ {
		for f := 0; f < 64; f++ {
			cases = append(cases, core.J(c08Case{K: k, First: f, Opts: 4}))
		}
	}
	ctx.Ev.Rule = "every list of k tables (oldest to newest), each table assigning to each key of {\"\", a, b} one of {absent, value v<slot><key>, tombstone} (second family adds the empty value): stacked reader Get/Contains for 5 keys, Scan, ScanStartingAt and ScanRange for all bounds in {\"\",0,a,aa,b,c}; MergeCompact with both exported reductions into a fresh table and read back; Merge for key-disjoint lists. distinct = list of table codes; non-trivial = at least two tables share a key"
	ctx.Ev.Bounds["max_tables_3_options"] = map[bool]int{false: 3, true: 4}[ctx.Tier == "thorough"]
	ctx.Ev.Bounds["max_tables_4_options"] = k4
	rs := ctx.Pmap(cases)
	ctx.Fold(rs, cases)
	for i, r := range rs {
		if r.Died {
			ctx.Report(core.Violation{Desc: "worker died: " + r.DiedMsg, Case: cases[i]})
		}
	}
	return nil
}

func (c c08) Case(w *core.WCtx, payload json.RawMessage) core.Result {
	var cs c08Case
	json.Unmarshal(payload, &cs)
	var r core.Result
	if cs.Opts == 0 {
		cs.Opts = 3
	}
	ntab := ipow(cs.Opts, len(c08Keys))
	base := w.Dir()
	// build every (slot, code) directory this case can need
	built := map[[2]int]string{}
	need := func(slot, code int) string {
		key := [2]int{slot, code}
		if d, ok := built[key]; ok {
			return d
		}
		d := filepath.Join(base, fmt.Sprintf("s%d_t%d", slot, code))
		mustMkdir(d)
		if err := writeTable(d, c08Table(code, slot, cs.Opts), tblW{Writer: "stream", DataComp: 2, IndexComp: 0}); err != nil {
			panic(fmt.Sprintf("cannot build input table: %v", err))
		}
		built[key] = d
		return d
	}
	codes := make([]int, cs.K)
	var lists [][]int
	if cs.Only != nil {
		lists = [][]int{cs.Only}
	} else if cs.K == 0 {
		lists = [][]int{{}}
	} else {
		first := []int{cs.First}
		fixed := 1
		if cs.K == 4 { // thorough: two fixed leading tables
			first = []int{cs.First % 27, cs.First / 27}
			fixed = 2
		}
		var rec func(i int)
		rec = func(i int) {
			if i == cs.K {
				lists = append(lists, append([]int{}, codes...))
				return
			}
			for t := 0; t < ntab; t++ {
				codes[i] = t
				rec(i + 1)
			}
		}
		copy(codes, first)
		rec(fixed)
	}
	outDir := filepath.Join(base, "out")
	for _, list := range lists {
		if len(r.Viol) >= 6 {
			break
		}
		c.checkList(list, cs.Opts, need, outDir, &r)
	}
	r.Outcome = fmt.Sprintf("k=%d opts=%d ok=%v", cs.K, cs.Opts, len(r.Viol) == 0)
	if cs.K == 2 && cs.First == 5 && cs.Opts == 3 {
		r.Sample = string(core.J(map[string]any{"oldest": kvsStr(c08Table(5, 0, 3)), "newest_examples": []string{kvsStr(c08Table(7, 1, 3)), kvsStr(c08Table(22, 1, 3))}, "lists_in_case": len(lists)}))
	}
	return r
}

func (c c08) checkList(list []int, opts int, need func(slot, code int) string, outDir string, r *core.Result) {
	viol := func(sig, f string, a ...any) {
		if len(r.Viol) < 8 {
			var tabs []string
			for s, code := range list {
				tabs = append(tabs, kvsStr(c08Table(code, s, opts)))
			}
			r.Viol = append(r.Viol, core.Violation{Sig: sig, Desc: fmt.Sprintf("tables(oldest first) %v: %s", tabs, fmt.Sprintf(f, a...)),
				Case: core.J(c08Case{K: len(list), Opts: opts, Only: list})})
		}
	}
	defer func() {
		if p := recover(); p != nil {
			viol("", "panic: %v", p)
		}
	}()
	// reference: fold oldest -> newest
	ref := map[string][]byte{}
	has := map[string]bool{}
	shared := false
	emptyKeyPresent := false
	for s, code := range list {
		for _, e := range c08Table(code, s, opts) {
			if has[string(e.K)] {
				shared = true
			}
			has[string(e.K)] = true
			ref[string(e.K)] = e.V
			if len(e.K) == 0 {
				emptyKeyPresent = true
			}
		}
	}
	// D6 matcher: the empty key is in some table; the merger encodes "no previous key" as prevKey == nil
	d6 := ""
	if emptyKeyPresent {
		d6 = "D6-empty-key-merge"
	}
	var keys []string
	for k := range ref {
		keys = append(keys, k)
	}
	sort.Strings(keys)
	live := func(skipEmpty bool) []kv {
		var out []kv
		for _, k := range keys {
			v := ref[k]
			if v == nil || (skipEmpty && len(v) == 0) {
				continue
			}
			out = append(out, kv{[]byte(k), v})
		}
		return out
	}
	all := func() []kv {
		var out []kv
		for _, k := range keys {
			out = append(out, kv{[]byte(k), ref[k]})
		}
		return out
	}
	var readers []sstables.SSTableReaderI
	open := func() []sstables.SSTableReaderI {
		var rs []sstables.SSTableReaderI
		for s, code := range list {
			rd, err := openTable(need(s, code), tblR{RBuf: 4096})
			if err != nil {
				panic(fmt.Sprintf("cannot open input table: %v", err))
			}
			rs = append(rs, rd)
		}
		return rs
	}
	readers = open()
	defer func() {
		for _, rd := range readers {
			rd.Close()
		}
	}()
	r.Traces++
	if shared {
		r.Keys = append(r.Keys, core.HashKey(fmt.Sprint(opts), fmt.Sprint(list)))
	}
	super := sstables.NewSuperSSTableReader(readers, skiplist.BytesComparator{})
	probeKeys := [][]byte{{}, []byte("a"), []byte("b"), []byte("c"), []byte("0")}
	for _, k := range probeKeys {
		r.Evals += 2
		want, ok := ref[string(k)]
		got, err := super.Get(k)
		if !ok {
			if !errors.Is(err, sstables.NotFound) {
				viol("", "stacked Get(%s)=%s,%v want NotFound", keyStr(k), recStr(got), err)
			}
		} else if err != nil || !recEq(got, want) {
			viol("", "stacked Get(%s)=%s,%v want %s", keyStr(k), recStr(got), err, recStr(want))
		}
		cgot, err := super.Contains(k)
		if err != nil || cgot != ok {
			viol("", "stacked Contains(%s)=%v,%v want %v", keyStr(k), cgot, err, ok)
		}
	}
	limit := len(keys)*len(list) + 4
	wantLive := live(false)
	r.Evals++
	if it, err := super.Scan(); err != nil {
		viol("", "stacked Scan error %v", err)
	} else if got, err := drain(it, limit); err != nil || !kvsEq(normKeys(got), wantLive) {
		viol(d6, "stacked Scan=%s,%v want %s", kvsStr(got), err, kvsStr(wantLive))
	}
	bounds := [][]byte{{}, []byte("0"), []byte("a"), []byte("aa"), []byte("b"), []byte("c")}
	for _, lo := range bounds {
		r.Evals++
		want := rangeOf(wantLive, lo, nil, false)
		if it, err := super.ScanStartingAt(lo); err != nil {
			viol("", "stacked ScanStartingAt(%s) error %v", keyStr(lo), err)
		} else if got, err := drain(it, limit); err != nil || !kvsEq(normKeys(got), want) {
			viol(d6, "stacked ScanStartingAt(%s)=%s,%v want %s", keyStr(lo), kvsStr(got), err, kvsStr(want))
		}
		for _, hi := range bounds {
			r.Evals++
			it, err := super.ScanRange(lo, hi)
			if bytes.Compare(lo, hi) > 0 {
				if err == nil && len(list) > 0 {
					viol("", "stacked ScanRange(%s,%s) lower>upper accepted", keyStr(lo), keyStr(hi))
				}
				continue
			}
			want := rangeOf(wantLive, lo, hi, true)
			if err != nil {
				viol("", "stacked ScanRange(%s,%s) error %v", keyStr(lo), keyStr(hi), err)
			} else if got, err := drain(it, limit); err != nil || !kvsEq(normKeys(got), want) {
				viol(d6, "stacked ScanRange(%s,%s)=%s,%v want %s", keyStr(lo), keyStr(hi), kvsStr(got), err, kvsStr(want))
			}
		}
	}
	// compacting merge with each exported reduction, read back from a fresh table
	type red struct {
		name      string
		f         sstables.ReduceFunc
		skipEmpty bool
	}
	for _, rd := range []red{{"ScanReduceLatestWins", sstables.ScanReduceLatestWins, false}, {"ScanReduceLatestWinsSkipTombstones", sstables.ScanReduceLatestWinsSkipTombstones, true}} {
		got, err := c.mergeInto(readers, outDir, func(m sstables.SSTableMerger, its []sstables.SSTableMergeIteratorContext, w sstables.SSTableStreamWriterI) error {
			return m.MergeCompact(its, w, rd.f)
		})
		r.Evals++
		r.Trans++
		want := live(rd.skipEmpty)
		if err != nil || !kvsEq(got, want) {
			viol(d6, "MergeCompact(%s) wrote %s,%v want %s", rd.name, kvsStr(got), err, kvsStr(want))
		}
	}
	if !shared {
		got, err := c.mergeInto(readers, outDir, func(m sstables.SSTableMerger, its []sstables.SSTableMergeIteratorContext, w sstables.SSTableStreamWriterI) error {
			return m.Merge(its, w)
		})
		r.Evals++
		r.Trans++
		if err != nil || !kvsEq(got, all()) {
			viol("", "Merge of key-disjoint tables wrote %s,%v want %s", kvsStr(got), err, kvsStr(all()))
		}
	}
}

// normKeys maps a nil key (what an empty key decodes to) to the empty key.
func normKeys(a []kv) []kv {
	for i := range a {
		if a[i].K == nil {
			a[i].K = []byte{}
		}
	}
	return a
}

func (c c08) mergeInto(rds []sstables.SSTableReaderI, outDir string,
	run func(m sstables.SSTableMerger, its []sstables.SSTableMergeIteratorContext, w sstables.SSTableStreamWriterI) error) ([]kv, error) {
	var its []sstables.SSTableMergeIteratorContext
	for s, rd := range rds {
		sc, err := rd.Scan()
		if err != nil {
			return nil, err
		}
		its = append(its, sstables.NewMergeIteratorContext(s, sc))
	}
	removeAll(outDir)
	mustMkdir(outDir)
	w, err := sstables.NewSSTableStreamWriter(sstables.WriteBasePath(outDir), sstables.WithKeyComparator(skiplist.BytesComparator{}), sstables.WriteBufferSizeBytes(4096))
	if err != nil {
		return nil, err
	}
	if err := w.Open(); err != nil {
		return nil, err
	}
	mErr := run(sstables.NewSSTableMerger(skiplist.BytesComparator{}), its, w)
	cErr := w.Close()
	if mErr != nil {
		return nil, fmt.Errorf("merge: %w", mErr)
	}
	if cErr != nil {
		return nil, fmt.Errorf("close: %w", cErr)
	}
	out, err := openTable(outDir, tblR{RBuf: 4096})
	if err != nil {
		return nil, fmt.Errorf("open merged table: %w", err)
	}
	defer out.Close()
	it, err := out.Scan()
	if err != nil {
		return nil, err
	}
	got, err := drain(it, 20)
	return normKeys(got), err
}
