package checks

import (
	"bytes"
	"encoding/json"
	"errors"
	"fmt"
	"path/filepath"
	"sort"

	"github.com/thomasjungblut/go-sstables/sstables"
	"verif/internal/core"
)

// C08: merging or stacking tables equals the latest-wins union of their contents.

type c08 struct{}

func init()            { core.Register(c08{}) }
func (c08) ID() string { return "C08" }

type c08Case struct {
	K     int   `json:"k"`
	First int   `json:"first"`          // table code of the oldest table
	Opts  int   `json:"opts"`           // options per key: 3 = {absent,value,tombstone}, 4 adds the empty value
	Only  []int `json:"only,omitempty"` // replay: exact list of table codes
	// Lists: a batch of exact lists (the deep-stack family: 4 to 6 tables with at most one key each)
	Lists [][]int `json:"lists,omitempty"`
	// Legacy > 0: stacks that contain fixture table Legacy-1 of the repository (written by earlier versions of the
	// library); Pos = 0 fixture oldest, 1 fixture newest, 2 fixture between two current tables (First = oldest code)
	Legacy int `json:"legacy,omitempty"`
	Pos    int `json:"pos,omitempty"`
}

var c08Keys = [][]byte{{}, []byte("a"), []byte("b")}

// c08Fold: family 5 = keys compared ignoring case; per key slot {absent, lower=value, upper=value, lower=tombstone, upper=tombstone}
var c08FoldKeys = [][2][]byte{{[]byte("a"), []byte("A")}, {[]byte("b"), []byte("B")}}

// keys of the tables stacked with a legacy fixture (fixtures hold the 4-byte keys 1..7): below, inside, the max key, above
var c08LegacyKeys = [][]byte{{0, 0, 0, 0}, {0, 0, 0, 3}, {0, 0, 0, 7}, {0, 0, 0, 9}}

type c08Tab struct {
	Dir string
	KVs []kv
}

type c08Fam struct {
	loader string // index loader of the input tables ("" = default)
	cmp    string
	norm   func([]byte) string
	probes [][]byte
	bounds [][]byte
}

func c08Family(opts int, legacy bool) c08Fam {
	switch {
	case legacy:
		b := [][]byte{{}, {0, 0, 0, 0}, {0, 0, 0, 3}, {0, 0, 0, 4}, {0, 0, 0, 7}, {0, 0, 0, 8}, {0, 0, 0, 9}, {0, 0, 0, 10}}
		return c08Fam{"", "", func(k []byte) string { return string(k) }, b, b}
	case opts == 13: // the 3-option family read through the on-disk index
		f := c08Family(3, false)
		f.loader = "disk"
		return f
	case opts == 5:
		return c08Fam{"", "fold", func(k []byte) string { return string(bytes.ToLower(k)) },
			[][]byte{{}, []byte("a"), []byte("A"), []byte("b"), []byte("B"), []byte("c"), []byte("0")},
			[][]byte{{}, []byte("0"), []byte("a"), []byte("A"), []byte("aa"), []byte("b"), []byte("B"), []byte("c")}}
	}
	return c08Fam{"", "", func(k []byte) string { return string(k) },
		[][]byte{{}, []byte("a"), []byte("b"), []byte("c"), []byte("0")},
		[][]byte{{}, []byte("0"), []byte("a"), []byte("aa"), []byte("b"), []byte("c")}}
}

// loaderFor: the slice and disk indexes are byte-ordered by construction (they do not take a comparator); under a
// custom comparator the tables are opened with the skip-list index, the loader that is parameterised by one.
func loaderFor(cmpName string) string {
	if cmpName != "" {
		return "skiplist"
	}
	return ""
}

func c08NumTables(opts int) int {
	if opts == 13 {
		return 27
	}
	if opts == 5 {
		return ipow(5, len(c08FoldKeys))
	}
	return ipow(opts, len(c08Keys))
}

// c08LegacyTable: digit per key of c08LegacyKeys: 0 absent, 1 value, 2 tombstone
func c08LegacyTable(code, slot int) []kv {
	var out []kv
	for _, k := range c08LegacyKeys {
		d := code % 3
		code /= 3
		switch d {
		case 1:
			out = append(out, kv{k, []byte(fmt.Sprintf("n%d-%x", slot, k))})
		case 2:
			out = append(out, kv{k, nil})
		}
	}
	return out
}

// table code -> content for a slot. digit per key: 0 absent, 1 value, 2 tombstone, 3 empty value
func c08Table(code, slot, opts int) []kv {
	var out []kv
	if opts == 13 {
		opts = 3
	}
	if opts == 5 {
		for _, pair := range c08FoldKeys {
			d := code % 5
			code /= 5
			switch d {
			case 1, 2:
				out = append(out, kv{pair[d-1], []byte(fmt.Sprintf("v%d%s", slot, pair[d-1]))})
			case 3, 4:
				out = append(out, kv{pair[d-3], nil})
			}
		}
		return out
	}
	for ki, k := range c08Keys {
		d := code % opts
		code /= opts
		switch d {
		case 1:
			out = append(out, kv{k, []byte(fmt.Sprintf("v%d%s", slot, string(k)))})
		case 2:
			out = append(out, kv{k, nil})
		case 3:
			out = append(out, kv{k, []byte{}})
		}
		_ = ki
	}
	return out
}

func ipow(b, e int) int {
	r := 1
	for i := 0; i < e; i++ {
		r *= b
	}
	return r
}

func (c c08) Run(ctx *core.Ctx) error {
	var cases []json.RawMessage
	cases = append(cases, core.J(c08Case{K: 0, Opts: 3}))
	maxK := 3
	for k := 1; k <= maxK; k++ {
		for f := 0; f < 27; f++ {
			cases = append(cases, core.J(c08Case{K: k, First: f, Opts: 3}))
		}
	}
	k4 := 2
	if ctx.Tier == "thorough" {
		k4 = 3
		for f := 0; f < 27; f++ {
			for s := 0; s < 27; s++ {
				cases = append(cases, core.J(c08Case{K: 4, First: f + 27*s, Opts: 3}))
			}
		}
	}
	for k := 1; k <= k4; k++ {
		for f := 0; f < 64; f++ {
			cases = append(cases, core.J(c08Case{K: k, First: f, Opts: 4}))
		}
	}
	// keys that are equal under the comparator without being equal as bytes
	for k := 1; k <= 3; k++ {
		for f := 0; f < 25; f++ {
			cases = append(cases, core.J(c08Case{K: k, First: f, Opts: 5}))
		}
	}
	// the input tables read through the on-disk index (its iterators reuse their entry objects)
	for k := 1; k <= 2; k++ {
		for f := 0; f < 27; f++ {
			cases = append(cases, core.J(c08Case{K: k, First: f, Opts: 13}))
		}
	}
	// deep stacks: 4 tables with at most one key each (value or tombstone, or no key at all), 5 tables with at most
	// one value each, 6 tables with exactly one value each - the merge heap gets a second and a third level, and a
	// later table's first key can be smaller than its heap parent and the root
	one := []int{0, 1, 2, 3, 6, 9, 18} // base-3 codes with at most one non-zero digit
	var deep [][]int
	var recDeep func(cur []int, k int, alpha []int)
	recDeep = func(cur []int, k int, alpha []int) {
		if len(cur) == k {
			deep = append(deep, append([]int{}, cur...))
			return
		}
		for _, a := range alpha {
			recDeep(append(cur, a), k, alpha)
		}
	}
	recDeep(nil, 4, one)
	recDeep(nil, 5, []int{0, 1, 3, 9})
	recDeep(nil, 6, []int{1, 3, 9})
	for i := 0; i < len(deep); i += 48 {
		cases = append(cases, core.J(c08Case{K: 6, Opts: 3, Lists: deep[i:min(i+48, len(deep))]}))
	}
	ctx.Ev.Bounds["deep_stack_lists"] = len(deep)
	ctx.Ev.Bounds["deep_stack_max_tables"] = 6
	// stacks that contain a table written by an earlier version of the library (the repository's fixtures)
	nl := 0
	for fi := range legacyTables() {
		for pos := 0; pos < 2; pos++ {
			cases = append(cases, core.J(c08Case{Legacy: fi + 1, Pos: pos, First: -1}))
			nl++
		}
		for f := 0; f < 81; f += 4 { // fixture between two current tables: every 4th oldest table x all newest tables
			cases = append(cases, core.J(c08Case{Legacy: fi + 1, Pos: 2, First: f}))
			nl++
		}
	}
	ctx.Ev.Bounds["legacy_fixture_tables"] = len(legacyTables())
	ctx.Ev.Bounds["comparator_families"] = "bytes; ASCII case-insensitive (keys a/A, b/B: equal under the comparator, different as bytes)"
	ctx.Ev.Rule = "every list of k tables (oldest to newest), each table assigning to each key of {\"\", a, b} one of {absent, value v<slot><key>, tombstone} (second family adds the empty value): stacked reader Get/Contains for 5 keys, Scan, ScanStartingAt and ScanRange for all bounds in {\"\",0,a,aa,b,c}; MergeCompact with both exported reductions into a fresh table and read back; Merge for key-disjoint lists. Plus deep stacks: every list of 4 tables with at most one key each (value or tombstone), of 5 tables with at most one value each and of 6 tables with exactly one value each (second and third heap level). The same for lists of up to 2 tables opened with the on-disk index loader, for lists of up to 3 tables under a case-insensitive comparator (per key slot absent / either spelling as value or tombstone), and for stacks of each legacy fixture table of the repository with every current table over keys {below, inside, max, above} (fixture oldest, newest, or between two current tables). distinct = list of table codes; non-trivial = at least two tables share a key"
	ctx.Ev.Bounds["max_tables_3_options"] = map[bool]int{false: 3, true: 4}[ctx.Tier == "thorough"]
	ctx.Ev.Bounds["max_tables_4_options"] = k4
	rs := ctx.Pmap(cases)
	ctx.Fold(rs, cases)
	for i, r := range rs {
		if r.Died {
			ctx.Report(core.Violation{Desc: "worker died: " + r.DiedMsg, Case: cases[i]})
		}
	}
	return nil
}

func (c c08) Case(w *core.WCtx, payload json.RawMessage) core.Result {
	var cs c08Case
	json.Unmarshal(payload, &cs)
	var r core.Result
	if cs.Opts == 0 {
		cs.Opts = 3
	}
	if cs.Legacy > 0 {
		return c.legacyCase(w, cs)
	}
	ntab := c08NumTables(cs.Opts)
	fam := c08Family(cs.Opts, false)
	base := w.Dir()
	// build every (slot, code) directory this case can need
	built := map[[2]int]string{}
	need := func(slot, code int) string {
		key := [2]int{slot, code}
		if d, ok := built[key]; ok {
			return d
		}
		d := filepath.Join(base, fmt.Sprintf("s%d_t%d", slot, code))
		mustMkdir(d)
		// every second table is written with a bloom filter sized for a single element (more keys than expected elements)
		if err := writeTable(d, c08Table(code, slot, cs.Opts), tblW{Writer: "stream", DataComp: 2, IndexComp: 0, Cmp: fam.cmp, BloomN: uint64(slot % 2)}); err != nil {
			panic(fmt.Sprintf("cannot build input table: %v", err))
		}
		built[key] = d
		return d
	}
	codes := make([]int, cs.K)
	var lists [][]int
	if cs.Lists != nil {
		lists = cs.Lists
	} else if cs.Only != nil {
		lists = [][]int{cs.Only}
	} else if cs.K == 0 {
		lists = [][]int{{}}
	} else {
		first := []int{cs.First}
		fixed := 1
		if cs.K == 4 { // thorough: two fixed leading tables
			first = []int{cs.First % 27, cs.First / 27}
			fixed = 2
		}
		var rec func(i int)
		rec = func(i int) {
			if i == cs.K {
				lists = append(lists, append([]int{}, codes...))
				return
			}
			for t := 0; t < ntab; t++ {
				codes[i] = t
				rec(i + 1)
			}
		}
		copy(codes, first)
		rec(fixed)
	}
	outDir := filepath.Join(base, "out")
	for _, list := range lists {
		if len(r.Viol) >= 6 {
			break
		}
		var tabs []c08Tab
		for sl, code := range list {
			tabs = append(tabs, c08Tab{need(sl, code), c08Table(code, sl, cs.Opts)})
		}
		c.checkTabs(tabs, fam, core.J(c08Case{K: len(list), Opts: cs.Opts, Only: list}), fmt.Sprint(cs.Opts, list), outDir, &r)
	}
	r.Outcome = fmt.Sprintf("k=%d opts=%d ok=%v", cs.K, cs.Opts, len(r.Viol) == 0)
	if cs.K == 2 && cs.First == 5 && cs.Opts == 3 {
		r.Sample = string(core.J(map[string]any{"oldest": kvsStr(c08Table(5, 0, 3)), "newest_examples": []string{kvsStr(c08Table(7, 1, 3)), kvsStr(c08Table(22, 1, 3))}, "lists_in_case": len(lists)}))
	}
	return r
}

func (c c08) checkTabs(tabs []c08Tab, fam c08Fam, replay json.RawMessage, id string, outDir string, r *core.Result) {
	comparator := cmpFor(fam.cmp)
	cmpF := func(a, b []byte) int { return comparator.Compare(a, b) }
	viol := func(sig, f string, a ...any) {
		if len(r.Viol) < 8 {
			var ts []string
			for _, t := range tabs {
				ts = append(ts, kvsStr(t.KVs))
			}
			r.Viol = append(r.Viol, core.Violation{Sig: sig, Desc: fmt.Sprintf("tables(oldest first) %v: %s", ts, fmt.Sprintf(f, a...)), Case: replay})
		}
	}
	defer func() {
		if p := recover(); p != nil {
			viol("", "panic: %v", p)
		}
	}()
	// reference: fold oldest -> newest
	ref := map[string][]byte{}
	has := map[string]bool{}
	shared := false
	emptyKeyPresent := false
	for _, t := range tabs {
		for _, e := range t.KVs {
			nk := fam.norm(e.K)
			if has[nk] {
				shared = true
			}
			has[nk] = true
			ref[nk] = e.V
			if len(e.K) == 0 {
				emptyKeyPresent = true
			}
		}
	}
	// D6 matcher: the empty key is in some table; the merger encodes "no previous key" as prevKey == nil
	d6 := ""
	if emptyKeyPresent {
		d6 = "D6-empty-key-merge"
	}
	var keys []string
	for k := range ref {
		keys = append(keys, k)
	}
	sort.Strings(keys)
	live := func(skipEmpty bool) []kv {
		var out []kv
		for _, k := range keys {
			v := ref[k]
			if v == nil || (skipEmpty && len(v) == 0) {
				continue
			}
			out = append(out, kv{[]byte(k), v})
		}
		return out
	}
	all := func() []kv {
		var out []kv
		for _, k := range keys {
			out = append(out, kv{[]byte(k), ref[k]})
		}
		return out
	}
	var readers []sstables.SSTableReaderI
	open := func() []sstables.SSTableReaderI {
		var rs []sstables.SSTableReaderI
		for _, t := range tabs {
			ld := loaderFor(fam.cmp)
			if fam.loader != "" {
				ld = fam.loader
			}
			rd, err := openTable(t.Dir, tblR{RBuf: 4096, Cmp: fam.cmp, Loader: ld})
			if err != nil {
				panic(fmt.Sprintf("cannot open input table: %v", err))
			}
			rs = append(rs, rd)
		}
		return rs
	}
	readers = open()
	defer func() {
		for _, rd := range readers {
			rd.Close()
		}
	}()
	r.Traces++
	if shared {
		r.Keys = append(r.Keys, core.HashKey(id))
	}
	super := sstables.NewSuperSSTableReader(readers, comparator)
	kvsEq := func(a, b []kv) bool { // keys compared up to comparator equality
		if len(a) != len(b) {
			return false
		}
		for i := range a {
			if fam.norm(a[i].K) != fam.norm(b[i].K) || !recEq(a[i].V, b[i].V) {
				return false
			}
		}
		return true
	}
	rangeOf := func(sorted []kv, lo, hi []byte, hasHi bool) []kv {
		var out []kv
		for _, e := range sorted {
			if cmpF(e.K, lo) >= 0 && (!hasHi || cmpF(e.K, hi) <= 0) {
				out = append(out, e)
			}
		}
		return out
	}
	for _, k := range fam.probes {
		// point lookups go through the byte-wise bloom filter and hash of each table, so they are only defined for the
		// spelling that was written: skip a probe that some table holds under a different (comparator-equal) spelling
		otherSpelling := false
		for _, t := range tabs {
			for _, e := range t.KVs {
				if fam.norm(e.K) == fam.norm(k) && !bytes.Equal(e.K, k) {
					otherSpelling = true
				}
			}
		}
		if otherSpelling {
			continue
		}
		r.Evals += 2
		want, ok := ref[fam.norm(k)]
		got, err := super.Get(k)
		if !ok {
			if !errors.Is(err, sstables.NotFound) {
				viol("", "stacked Get(%s)=%s,%v want NotFound", keyStr(k), recStr(got), err)
			}
		} else if err != nil || !recEq(got, want) {
			viol("", "stacked Get(%s)=%s,%v want %s", keyStr(k), recStr(got), err, recStr(want))
		}
		cgot, err := super.Contains(k)
		if err != nil || cgot != ok {
			viol("", "stacked Contains(%s)=%v,%v want %v", keyStr(k), cgot, err, ok)
		}
	}
	limit := len(keys)*len(tabs) + 4
	wantLive := live(false)
	r.Evals++
	if it, err := super.Scan(); err != nil {
		viol("", "stacked Scan error %v", err)
	} else if got, err := drain(it, limit); err != nil || !kvsEq(normKeys(got), wantLive) {
		viol(d6, "stacked Scan=%s,%v want %s", kvsStr(got), err, kvsStr(wantLive))
	}
	bounds := fam.bounds
	for _, lo := range bounds {
		r.Evals++
		want := rangeOf(wantLive, lo, nil, false)
		if it, err := super.ScanStartingAt(lo); err != nil {
			viol("", "stacked ScanStartingAt(%s) error %v", keyStr(lo), err)
		} else if got, err := drain(it, limit); err != nil || !kvsEq(normKeys(got), want) {
			viol(d6, "stacked ScanStartingAt(%s)=%s,%v want %s", keyStr(lo), kvsStr(got), err, kvsStr(want))
		}
		for _, hi := range bounds {
			r.Evals++
			it, err := super.ScanRange(lo, hi)
			if cmpF(lo, hi) > 0 {
				if err == nil && len(tabs) > 0 {
					viol("", "stacked ScanRange(%s,%s) lower>upper accepted", keyStr(lo), keyStr(hi))
				}
				continue
			}
			want := rangeOf(wantLive, lo, hi, true)
			if err != nil {
				viol("", "stacked ScanRange(%s,%s) error %v", keyStr(lo), keyStr(hi), err)
			} else if got, err := drain(it, limit); err != nil || !kvsEq(normKeys(got), want) {
				viol(d6, "stacked ScanRange(%s,%s)=%s,%v want %s", keyStr(lo), keyStr(hi), kvsStr(got), err, kvsStr(want))
			}
		}
	}
	// compacting merge with each exported reduction, read back from a fresh table
	type red struct {
		name      string
		f         sstables.ReduceFunc
		skipEmpty bool
	}
	for _, rd := range []red{{"ScanReduceLatestWins", sstables.ScanReduceLatestWins, false}, {"ScanReduceLatestWinsSkipTombstones", sstables.ScanReduceLatestWinsSkipTombstones, true}} {
		got, err := c.mergeInto(readers, fam.cmp, outDir, func(m sstables.SSTableMerger, its []sstables.SSTableMergeIteratorContext, w sstables.SSTableStreamWriterI) error {
			return m.MergeCompact(its, w, rd.f)
		})
		r.Evals++
		r.Trans++
		want := live(rd.skipEmpty)
		if err != nil || !kvsEq(got, want) {
			viol(d6, "MergeCompact(%s) wrote %s,%v want %s", rd.name, kvsStr(got), err, kvsStr(want))
		}
	}
	if !shared {
		got, err := c.mergeInto(readers, fam.cmp, outDir, func(m sstables.SSTableMerger, its []sstables.SSTableMergeIteratorContext, w sstables.SSTableStreamWriterI) error {
			return m.Merge(its, w)
		})
		r.Evals++
		r.Trans++
		if err != nil || !kvsEq(got, all()) {
			viol("", "Merge of key-disjoint tables wrote %s,%v want %s", kvsStr(got), err, kvsStr(all()))
		}
	}
}

// normKeys maps a nil key (what an empty key decodes to) to the empty key.
func normKeys(a []kv) []kv {
	for i := range a {
		if a[i].K == nil {
			a[i].K = []byte{}
		}
	}
	return a
}

func (c c08) mergeInto(rds []sstables.SSTableReaderI, cmpName string, outDir string,
	run func(m sstables.SSTableMerger, its []sstables.SSTableMergeIteratorContext, w sstables.SSTableStreamWriterI) error) ([]kv, error) {
	var its []sstables.SSTableMergeIteratorContext
	for s, rd := range rds {
		sc, err := rd.Scan()
		if err != nil {
			return nil, err
		}
		its = append(its, sstables.NewMergeIteratorContext(s, sc))
	}
	removeAll(outDir)
	mustMkdir(outDir)
	w, err := sstables.NewSSTableStreamWriter(sstables.WriteBasePath(outDir), sstables.WithKeyComparator(cmpFor(cmpName)), sstables.WriteBufferSizeBytes(4096))
	if err != nil {
		return nil, err
	}
	if err := w.Open(); err != nil {
		return nil, err
	}
	mErr := run(sstables.NewSSTableMerger(cmpFor(cmpName)), its, w)
	cErr := w.Close()
	if mErr != nil {
		return nil, fmt.Errorf("merge: %w", mErr)
	}
	if cErr != nil {
		return nil, fmt.Errorf("close: %w", cErr)
	}
	out, err := openTable(outDir, tblR{RBuf: 4096, Cmp: cmpName, Loader: loaderFor(cmpName)})
	if err != nil {
		return nil, fmt.Errorf("open merged table: %w", err)
	}
	defer out.Close()
	it, err := out.Scan()
	if err != nil {
		return nil, err
	}
	got, err := drain(it, 20)
	return normKeys(got), err
}

// legacyCase: stacks of one fixture table with tables written by the current writer.
func (c c08) legacyCase(w *core.WCtx, cs c08Case) core.Result {
	var r core.Result
	fx := legacyTables()[cs.Legacy-1]
	fam := c08Family(3, true)
	base := w.Dir()
	built := map[[2]int]string{}
	need := func(slot, code int) c08Tab {
		key := [2]int{slot, code}
		d, ok := built[key]
		if !ok {
			d = filepath.Join(base, fmt.Sprintf("s%d_t%d", slot, code))
			mustMkdir(d)
			if err := writeTable(d, c08LegacyTable(code, slot), tblW{Writer: "stream", DataComp: 2}); err != nil {
				panic(fmt.Sprintf("cannot build input table: %v", err))
			}
			built[key] = d
		}
		return c08Tab{d, c08LegacyTable(code, slot)}
	}
	legacy := c08Tab{fx.Dir(), fx.KVs}
	outDir := filepath.Join(base, "out")
	run := func(tabs []c08Tab, codes []int) {
		if len(r.Viol) >= 6 {
			return
		}
		c.checkTabs(tabs, fam, core.J(c08Case{Legacy: cs.Legacy, Pos: cs.Pos, First: cs.First, Only: codes}), fmt.Sprint("legacy", cs.Legacy, cs.Pos, codes), outDir, &r)
	}
	switch cs.Pos {
	case 0, 1:
		if cs.Only == nil {
			run([]c08Tab{legacy}, nil)
		}
		for code := 0; code < 81; code++ {
			if cs.Only != nil && cs.Only[0] != code {
				continue
			}
			if cs.Pos == 0 {
				run([]c08Tab{legacy, need(1, code)}, []int{code})
			} else {
				run([]c08Tab{need(0, code), legacy}, []int{code})
			}
		}
	default:
		for code := 0; code < 81; code++ {
			if cs.Only != nil && cs.Only[0] != code {
				continue
			}
			run([]c08Tab{need(0, cs.First), legacy, need(2, code)}, []int{code})
		}
	}
	r.Outcome = fmt.Sprintf("legacy pos=%d ok=%v", cs.Pos, len(r.Viol) == 0)
	if cs.Pos == 0 && cs.Legacy == 1 {
		r.Sample = string(core.J(map[string]any{"fixture": fx.Name, "fixture_content": kvsStr(fx.KVs), "stacked_with": "81 current tables over 4 keys"}))
	}
	return r
}
