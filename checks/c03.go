package checks

import (
	"bytes"
	"encoding/json"
	"fmt"
	"github.com/thomasjungblut/go-sstables/skiplist"
	"github.com/thomasjungblut/go-sstables/sstables"
	"strings"

	"verif/internal/core"
)

// C03: an SSTable returns exactly what was written, for every index type and option.

type c03 struct{}

func init()            { core.Register(c03{}) }
func (c03) ID() string { return "C03" }

type c03Case struct {
	KVs   []kv  `json:"kvs"`
	Full  bool  `json:"full"` // all 16 compression pairs
	OnlyW *tblW `json:"only_w,omitempty"`
	OnlyR *tblR `json:"only_r,omitempty"`
	// Seq > 0: a table of Seq sequential keys k0002, k0004, ... (even numbers, so every odd one is an absent probe in between)
	Seq  int `json:"seq,omitempty"`
	SeqW int `json:"seqw,omitempty"` // 1-based index into the write configurations (0 = all)
	// Big: one table with values beyond every internal size class (pool buckets, buffers): 600 000 and 2^20+5 bytes
	Big bool `json:"big,omitempty"`
	// Shared: two different tables are opened one after the other (and then side by side) with ONE loader object per
	// loader type - a loader is configuration, whatever it caches must not carry over from one table to the next
	Shared bool `json:"shared,omitempty"`
	// Legacy > 0: fixture table Legacy-1 of the repository (written by an earlier version), read with every loader
	Legacy int    `json:"legacy,omitempty"`
	Sample string `json:"-"`
}

func c03Keys() [][]byte {
	return [][]byte{{}, []byte("a"), []byte("ab"), []byte("b"), bytes.Repeat([]byte("y"), 600), {0x91, 0x8d, 0x4c}}
}

func c03Vals() [][]byte {
	overflow := append(append([]byte{}, marker...), 0x00)
	for i := 0; i < 10; i++ {
		overflow = append(overflow, 0xff)
	}
	return [][]byte{nil, {}, []byte("v"), {'.', '.', 0x91}, overflow, incompressible(5000, 3)}
}

func (c c03) Run(ctx *core.Ctx) error {
	keys, vals := c03Keys(), c03Vals()
	maxFull, maxReduced := 2, 3
	if ctx.Tier == "thorough" {
		maxFull, maxReduced = 3, 4
	}
	reduced := []int{0, 2, 3} // nil, "v", "..91"
	var cases []json.RawMessage
	var rec func(start int, cur []kv, valIdx []int, max int)
	rec = func(start int, cur []kv, valIdx []int, max int) {
		cases = append(cases, core.J(c03Case{KVs: append([]kv{}, cur...), Full: ctx.Tier == "thorough" && len(cur) <= 2}))
		if len(cur) == max {
			return
		}
		for ki := start; ki < len(keys); ki++ {
			for _, vi := range valIdx {
				rec(ki+1, append(cur, kv{keys[ki], vals[vi]}), valIdx, max)
			}
		}
	}
	rec(0, nil, []int{0, 1, 2, 3, 4, 5}, maxFull)
	nfull := len(cases)
	// one size larger with the reduced value alphabet (tables of exactly that size)
	var rec2 func(start int, cur []kv)
	rec2 = func(start int, cur []kv) {
		if len(cur) == maxReduced {
			cases = append(cases, core.J(c03Case{KVs: append([]kv{}, cur...)}))
			return
		}
		for ki := start; ki < len(keys); ki++ {
			for _, vi := range reduced {
				rec2(ki+1, append(cur, kv{keys[ki], vals[vi]}))
			}
		}
	}
	rec2(0, nil)
	// larger tables (index search paths with more than a handful of entries): n sequential keys with holes between them
	sizes := []int{5, 8, 17, 40}
	if ctx.Tier == "thorough" {
		sizes = append(sizes, 129, 1000)
	}
	for _, n := range sizes {
		// one case per write configuration (the probe set of a large table is big)
		for wi := 0; wi < 40; wi++ {
			cases = append(cases, core.J(c03Case{Seq: n, SeqW: wi + 1}))
		}
	}
	cases = append(cases, core.J(c03Case{Big: true}))
	for fi := range legacyTables() {
		cases = append(cases, core.J(c03Case{Legacy: fi + 1}))
	}
	cases = append(cases, core.J(c03Case{Shared: true}))
	// key and value lengths on both sides of the variable-length-integer boundaries 2^7 and 2^14
	for _, kl := range []int{126, 127, 128, 129} {
		var t []kv
		for j, vl := range []int{126, 127, 128, 129, 16383, 16384, 16385} {
			k := bytes.Repeat([]byte{byte('a' + j)}, kl)
			t = append(t, kv{k, incompressible(vl, uint64(kl*100+j))})
		}
		cases = append(cases, core.J(c03Case{KVs: t}))
	}
	ctx.Ev.Bounds["varint_boundary_tables"] = "4 tables: keys of 126..129 bytes x values of 126,127,128,129,16383,16384,16385 bytes"
	ctx.Ev.Bounds["legacy_fixture_tables"] = len(legacyTables())
	ctx.Ev.Bounds["sequential_key_tables"] = sizes
	ctx.Ev.Bounds["large_value_table"] = "a=600000 incompressible bytes, ab=v, b=2^20+5 incompressible bytes, c=nil; stream writer x data compression {none, snappy} and skip-list writer, loaders {slice, disk}"
	ctx.Ev.Rule = "every table = ascending subset of 6 keys (\"\", a, ab, b, the marker bytes, a 600-byte key) with values from {nil, empty, v, ..91, marker+00+ff*10, 5000 incompressible bytes} up to the size bound (one size larger with 3 values), written by the stream writer (buffers 5 and 4096) and the skip-list writer, x compression pairs x bloom sizing {1, default}, opened with {slice, skip-list, map[4]byte, disk} loaders x read buffers {5,4096}; plus one loader object of each type serving two different tables (one after the other and side by side); plus every legacy fixture table of the repository x 4 loaders x read buffer/hash-check options against its documented content; probes: Contains/Get for 11 keys (present, absent, below min, above max, between), Scan, ScanStartingAt(each), ScanRange(all pairs, lower>upper must fail), metadata. distinct = (table, write config, read config); non-trivial = table has >= 1 record"
	ctx.Ev.Bounds["tables_full_value_alphabet"] = nfull
	ctx.Ev.Bounds["tables_reduced_value_alphabet"] = len(cases) - nfull
	ctx.Ev.Bounds["max_size_full"] = maxFull
	ctx.Ev.Bounds["max_size_reduced"] = maxReduced
	rs := ctx.Pmap(cases)
	ctx.Fold(rs, cases)
	for i, r := range rs {
		if r.Died {
			ctx.Report(core.Violation{Desc: "worker died (panic in writer/reader): " + r.DiedMsg, Case: cases[i]})
		}
	}
	return nil
}

func c03Probes() [][]byte {
	p := c03Keys()
	p = append(p, []byte("0"), []byte("aa"), []byte("c"), []byte{0x91, 0x8d}, []byte("z"), bytes.Repeat([]byte("y"), 601), []byte{0xff})
	return p
}

func (c c03) Case(w *core.WCtx, payload json.RawMessage) core.Result {
	var cs c03Case
	json.Unmarshal(payload, &cs)
	for i := range cs.KVs { // JSON turns empty slices into null for keys; restore
		if cs.KVs[i].K == nil {
			cs.KVs[i].K = []byte{}
		}
	}
	var r core.Result
	if cs.Legacy > 0 {
		return c03Legacy(cs)
	}
	if cs.Shared {
		return c03Shared(w)
	}
	sorted := cs.KVs
	var seqProbes [][]byte
	if cs.Seq > 0 {
		sorted = nil
		for i := 1; i <= cs.Seq; i++ {
			var v []byte
			switch i % 4 {
			case 0:
				v = nil
			case 1:
				v = []byte(fmt.Sprintf("value-%d", i))
			case 2:
				v = []byte{}
			default:
				v = incompressible(30+i%7, uint64(i))
			}
			sorted = append(sorted, kv{[]byte(fmt.Sprintf("k%04d", 2*i)), v})
		}
		// probes: every key, every gap, below and above (all of them for small tables, a spread for the big ones)
		step := 1
		if cs.Seq > 40 {
			step = cs.Seq / 20
		}
		for i := 0; i <= 2*cs.Seq+2; i++ {
			if i%step == 0 || i <= 6 || i >= 2*cs.Seq-4 {
				seqProbes = append(seqProbes, []byte(fmt.Sprintf("k%04d", i)))
			}
		}
		seqProbes = append(seqProbes, []byte("a"), []byte("z"))
	}
	var wcfgs []tblW
	pairs := [][2]int{{0, 0}, {1, 1}, {2, 2}, {3, 3}, {2, 0}}
	if cs.Full {
		pairs = nil
		for d := 0; d < 4; d++ {
			for i := 0; i < 4; i++ {
				pairs = append(pairs, [2]int{d, i})
			}
		}
	}
	if w.Tier == "thorough" || cs.Full {
		for _, p := range pairs {
			for _, bl := range []uint64{1, 0} {
				wcfgs = append(wcfgs, tblW{Writer: "stream", DataComp: p[0], IndexComp: p[1], BloomN: bl, WBuf: 5})
				wcfgs = append(wcfgs, tblW{Writer: "stream", DataComp: p[0], IndexComp: p[1], BloomN: bl, WBuf: 4096})
				wcfgs = append(wcfgs, tblW{Writer: "skiplist", DataComp: p[0], IndexComp: p[1], BloomN: bl})
			}
		}
	} else {
		// quick: every compression pair with the tiny buffer and the undersized bloom filter, both writers;
		// default bloom sizing and the 4 KiB buffer on the default pair
		for _, p := range pairs {
			wcfgs = append(wcfgs, tblW{Writer: "stream", DataComp: p[0], IndexComp: p[1], BloomN: 1, WBuf: 5})
			wcfgs = append(wcfgs, tblW{Writer: "skiplist", DataComp: p[0], IndexComp: p[1], BloomN: 1})
		}
		wcfgs = append(wcfgs, tblW{Writer: "stream", DataComp: 2, IndexComp: 0, BloomN: 0, WBuf: 4096})
		wcfgs = append(wcfgs, tblW{Writer: "skiplist", DataComp: 2, IndexComp: 0, BloomN: 0})
	}
	var rcfgs []tblR
	for _, l := range []string{"slice", "skiplist", "map4", "disk"} {
		for _, rb := range []int{5, 4096} {
			if w.Tier != "thorough" && rb == 4096 && (l == "map4" || l == "skiplist") {
				continue
			}
			rcfgs = append(rcfgs, tblR{Loader: l, RBuf: rb})
		}
	}
	if cs.Big {
		sorted = []kv{{[]byte("a"), incompressible(600000, 11)}, {[]byte("ab"), []byte("v")}, {[]byte("b"), incompressible(1<<20+5, 12)}, {[]byte("c"), nil}}
		wcfgs = []tblW{{Writer: "stream", WBuf: 4096}, {Writer: "stream", DataComp: 2, WBuf: 4096}, {Writer: "skiplist"}}
		rcfgs = []tblR{{Loader: "slice", RBuf: 4096}, {Loader: "disk", RBuf: 4096}}
	}
	if cs.OnlyW != nil {
		wcfgs = []tblW{*cs.OnlyW}
	}
	if cs.SeqW > 0 {
		if cs.SeqW > len(wcfgs) {
			return r
		}
		wcfgs = wcfgs[cs.SeqW-1 : cs.SeqW]
	}
	if cs.OnlyR != nil {
		rcfgs = []tblR{*cs.OnlyR}
	}
	long := false
	for _, e := range sorted {
		if len(e.K) > 4 {
			long = true
		}
	}
	probes := c03Probes()
	if cs.Seq > 0 {
		probes = seqProbes
	}
	var probes4 [][]byte
	for _, p := range probes {
		if len(p) <= 4 {
			probes4 = append(probes4, p)
		}
	}
	viol := func(wc tblW, rc tblR, sig, f string, a ...any) {
		if len(r.Viol) < 8 {
			w2, r2 := wc, rc
			r.Viol = append(r.Viol, core.Violation{Sig: sig, Desc: fmt.Sprintf("table %s write=%+v read=%+v: %s", kvsStr(sorted), wc, rc, fmt.Sprintf(f, a...)),
				Case: core.J(c03Case{KVs: cs.KVs, Big: cs.Big, OnlyW: &w2, OnlyR: &r2})})
		}
	}
	for _, wc := range wcfgs {
		dir := w.Dir()
		func() {
			defer func() {
				if p := recover(); p != nil {
					viol(wc, tblR{}, "", "panic while writing: %v", p)
				}
			}()
			if err := writeTable(dir, sorted, wc); err != nil {
				viol(wc, tblR{}, "", "write failed: %v", err)
				return
			}
			r.Trans += int64(len(sorted))
			for _, rc := range rcfgs {
				if rc.Loader == "map4" && long {
					continue // the 4-byte mapper is only defined for keys of at most 4 bytes
				}
				func() {
					defer func() {
						if p := recover(); p != nil {
							viol(wc, rc, "", "panic while reading: %v", p)
						}
					}()
					rd, err := openTable(dir, rc)
					if err != nil {
						viol(wc, rc, "", "open failed: %v", err)
						return
					}
					defer rd.Close()
					r.Traces++
					if len(sorted) > 0 {
						r.Keys = append(r.Keys, core.HashKey(kvsStr(sorted), fmt.Sprint(wc), fmt.Sprint(rc)))
					}
					pp := probes
					if rc.Loader == "map4" {
						pp = probes4
					}
					for _, b := range probeSortedMap(rd, sorted, pp, rc.Loader, &r.Evals) {
						viol(wc, rc, b.Sig, "%s", b.Desc)
					}
					md := rd.MetaData()
					nulls := 0
					for _, e := range sorted {
						if e.V == nil {
							nulls++
						}
					}
					r.Evals++
					if md.NumRecords != uint64(len(sorted)) || md.NullValues != uint64(nulls) ||
						(len(sorted) > 0 && (!bytes.Equal(md.MinKey, sorted[0].K) || !bytes.Equal(md.MaxKey, sorted[len(sorted)-1].K))) {
						viol(wc, rc, "", "metadata %v does not describe the table", md)
					}
				}()
			}
		}()
	}
	r.Outcome = fmt.Sprintf("n=%d ok=%v", len(sorted), len(r.Viol) == 0)
	if len(sorted) == 2 && bytes.Equal(sorted[0].K, []byte("a")) && len(sorted[1].K) == 3 && sorted[0].V == nil && len(sorted[1].V) == 3 {
		r.Sample = string(core.J(map[string]any{"table": kvsStr(sorted), "write_configs": len(wcfgs), "read_configs": len(rcfgs), "probe_keys": len(probes)}))
	}
	return r
}

// c03Legacy: a table written by an earlier version of the library answers like the sorted map of its (documented)
// content under every loader, read buffer and hash-check option.
func c03Legacy(cs c03Case) core.Result {
	var r core.Result
	fx := legacyTables()[cs.Legacy-1]
	var probes [][]byte
	probes = append(probes, []byte{})
	for _, e := range fx.KVs {
		probes = append(probes, e.K)
	}
	lo := uint32(fx.KVs[0].K[3])
	hi := uint32(fx.KVs[len(fx.KVs)-1].K[3])
	probes = append(probes, be32(lo-1), be32(hi+1), be32(hi+2), []byte{0, 0, 0}, []byte{0xff})
	if len(fx.KVs) == 2 {
		probes = append(probes, be32(lo+1))
	}
	for _, l := range []string{"slice", "skiplist", "map4", "disk"} {
		for _, rc := range []tblR{{Loader: l, RBuf: 4096}, {Loader: l, RBuf: 5}, {Loader: l, RBuf: 4096, VerifyOnRead: true}, {Loader: l, RBuf: 4096, SkipOnLoad: true}} {
			func() {
				viol := func(f string, a ...any) {
					if len(r.Viol) < 8 {
						rc2 := rc
						r.Viol = append(r.Viol, core.Violation{Desc: fmt.Sprintf("legacy table %s read=%+v: %s", fx.Name, rc, fmt.Sprintf(f, a...)), Case: core.J(c03Case{Legacy: cs.Legacy, OnlyR: &rc2})})
					}
				}
				if cs.OnlyR != nil && *cs.OnlyR != rc {
					return
				}
				defer func() {
					if p := recover(); p != nil {
						viol("panic while reading: %v", p)
					}
				}()
				rd, err := openTable(fx.Dir(), rc)
				if err != nil {
					if l == "disk" && strings.Contains(err.Error(), "unsupported on files with version lower than v2") {
						return
					}
					viol("open failed: %v", err)
					return
				}
				defer rd.Close()
				r.Traces++
				r.Keys = append(r.Keys, core.HashKey("legacy", fx.Name, fmt.Sprint(rc)))
				pp := probes
				if l == "map4" {
					pp = nil
					for _, p := range probes {
						if len(p) <= 4 {
							pp = append(pp, p)
						}
					}
				}
				for _, b := range probeSortedMap(rd, fx.KVs, pp, l, &r.Evals) {
					// the on-disk index needs SeekNext, documented as unsupported for record files below version 2
					if l == "disk" && strings.Contains(b.Desc, "unsupported on files with version lower than v2") {
						if r.Extra == nil {
							r.Extra = map[string]int64{}
						}
						r.Extra["disk index refused on a version-1 index file (documented)"]++
						continue
					}
					viol("%s", b.Desc)
				}
			}()
		}
	}
	r.Outcome = fmt.Sprintf("legacy ok=%v", len(r.Viol) == 0)
	if cs.Legacy == 1 {
		r.Sample = string(core.J(map[string]any{"legacy_fixture": fx.Name, "content": kvsStr(fx.KVs), "probe_keys": len(probes)}))
	}
	return r
}

// c03Shared: one loader object serves two tables.
func c03Shared(w *core.WCtx) core.Result {
	var r core.Result
	mk := func(prefix string, n int) []kv {
		var out []kv
		for i := 1; i <= n; i++ {
			out = append(out, kv{[]byte(fmt.Sprintf("%s%03d", prefix, 2*i)), []byte(fmt.Sprintf("%s-value-%d", prefix, i))})
		}
		return out
	}
	tabs := [][]kv{mk("k", 40), mk("m", 57)}
	dirs := []string{w.Dir(), w.Dir()}
	for i := range tabs {
		if err := writeTable(dirs[i], tabs[i], tblW{Writer: "stream", DataComp: 2, WBuf: 4096}); err != nil {
			r.Viol = append(r.Viol, core.Violation{Desc: "cannot build table: " + err.Error()})
			return r
		}
	}
	probesOf := func(t []kv, prefix string) [][]byte {
		var p [][]byte
		for i := 0; i <= 2*len(t)+2; i += 3 {
			p = append(p, []byte(fmt.Sprintf("%s%03d", prefix, i)))
		}
		return append(p, []byte("a"), []byte("z"))
	}
	loaders := map[string]func() sstables.IndexLoader{
		"slice": func() sstables.IndexLoader { return &sstables.SliceKeyIndexLoader{ReadBufferSize: 4096} },
		"skiplist": func() sstables.IndexLoader {
			return &sstables.SkipListIndexLoader{KeyComparator: skiplist.BytesComparator{}, ReadBufferSize: 4096}
		},
		"disk": func() sstables.IndexLoader { return &sstables.DiskIndexLoader{} },
	}
	for _, name := range []string{"slice", "skiplist", "disk"} {
		for _, mode := range []string{"one after the other", "side by side"} {
			func() {
				defer func() {
					if p := recover(); p != nil {
						r.Viol = append(r.Viol, core.Violation{Desc: fmt.Sprintf("shared %s loader, %s: panic: %v", name, mode, p), Case: core.J(c03Case{Shared: true})})
					}
				}()
				l := loaders[name]()
				open := func(i int) sstables.SSTableReaderI {
					rd, err := sstables.NewSSTableReader(sstables.ReadBasePath(dirs[i]), sstables.ReadWithKeyComparator(skiplist.BytesComparator{}), sstables.ReadBufferSizeBytes(4096), sstables.ReadIndexLoader(l))
					if err != nil {
						panic(fmt.Sprintf("open table %d: %v", i, err))
					}
					return rd
				}
				check := func(i int, rd sstables.SSTableReaderI, when string) {
					r.Traces++
					for _, b := range probeSortedMap(rd, tabs[i], probesOf(tabs[i], []string{"k", "m"}[i]), name, &r.Evals) {
						if len(r.Viol) < 6 {
							r.Viol = append(r.Viol, core.Violation{Desc: fmt.Sprintf("one %s loader object for two tables (%s), table %d %s: %s", name, mode, i, when, b.Desc), Case: core.J(c03Case{Shared: true})})
						}
					}
				}
				r.Keys = append(r.Keys, core.HashKey("shared", name, mode))
				if mode == "one after the other" {
					a := open(0)
					check(0, a, "first")
					a.Close()
					b := open(1)
					check(1, b, "after the other one was used and closed")
					b.Close()
				} else {
					a, b := open(0), open(1)
					check(0, a, "first")
					check(1, b, "second")
					check(0, a, "again")
					a.Close()
					b.Close()
				}
			}()
		}
	}
	r.Outcome = fmt.Sprintf("shared-loader ok=%v", len(r.Viol) == 0)
	r.Sample = string(core.J(map[string]any{"kind": "one loader object, two tables", "tables": []int{40, 57}}))
	return r
}
