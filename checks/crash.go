package checks

import (
	"bytes"
	"crypto/sha256"
	"encoding/hex"
	"encoding/json"
	"fmt"
	"os"
	"os/exec"
	"path/filepath"
	"sort"
	"strings"
	"time"

	"verif/internal/core"
	"verif/internal/ktrace"
	"verif/internal/sess"
)

// Shared E3 machinery: run a vchild session under the tracer, derive for every
// distinct crash image the set of acknowledged / in-flight operations, recover
// each image in a fresh process with default options and compare with the
// reference of acknowledged operations.

func binPath(name string) string {
	self, _ := os.Executable()
	return filepath.Join(filepath.Dir(self), name)
}

type crashSituation struct {
	Image    int
	Acked    []int // op indexes (into the session) acknowledged before the snapshot
	Inflight []int // begun, not acknowledged
	Event    int   // event index the snapshot belongs to (-1 = final)
	Desc     string
	// MinPrefix: number of operations acknowledged before the last completed WAL rotation (creation of a
	// further WAL file by the client, which happens after the previous file was flushed and closed)
	MinPrefix int
}

// situations walks the event stream and lists, per snapshot, what had been acknowledged.
func situations(tr *ktrace.Trace) []crashSituation {
	var out []crashSituation
	acked := []int{}
	inflight := map[int]bool{}
	minPrefix := 0
	snap := func(img, ev int, desc string) {
		if img < 0 {
			return
		}
		var inf []int
		for k := range inflight {
			inf = append(inf, k)
		}
		sort.Ints(inf)
		out = append(out, crashSituation{Image: img, Acked: append([]int{}, acked...), Inflight: inf, Event: ev, Desc: desc, MinPrefix: minPrefix})
	}
	for i, e := range tr.Events {
		switch e.Kind {
		case "marker":
			var n int
			switch {
			case strings.HasPrefix(e.Marker, "B "):
				fmt.Sscanf(e.Marker, "B %d", &n)
				snap(e.Image, i, "before marker "+e.Marker)
				inflight[n] = true
			case strings.HasPrefix(e.Marker, "A "):
				fmt.Sscanf(e.Marker, "A %d", &n)
				delete(inflight, n)
				acked = append(acked, n)
				snap(e.Image, i, "at marker "+e.Marker)
			case strings.HasPrefix(e.Marker, "E "):
				// the call returned an error: it must have no effect, so it is neither acknowledged nor in flight any more
				fmt.Sscanf(e.Marker, "E %d", &n)
				delete(inflight, n)
				snap(e.Image, i, "at marker "+e.Marker)
			default:
				if e.Marker == "CLOSED" {
					minPrefix = len(acked) // a clean Close flushes everything
				}
				snap(e.Image, i, "at marker "+e.Marker)
			}
		case "call":
			snap(e.Image, i, fmt.Sprintf("before call #%d %s %s(%s) by %s", i, e.Nr, e.Path, e.Path2, e.Class))
			if e.Class == "client" && e.Nr == "openat" && strings.HasSuffix(e.Path, ".wal") && !strings.HasSuffix(e.Path, "/000000.wal") && e.Ret >= 0 {
				// takes effect for the snapshots after this call
				minPrefix = len(acked)
			}
		}
	}
	snap(tr.FinalImage, -1, "after the last call")
	return out
}

// refMap applies put/del ops of the session (by index) to a map; values are dump-encoded.
func refMap(s sess.Session, idx []int) map[string]string {
	m := map[string]string{}
	for _, i := range idx {
		refApply(m, s.Ops[i])
	}
	return m
}

var valueEnc = map[string]string{}

func refApply(m map[string]string, op sess.Op) {
	switch op.Op {
	case "put", "putbytes":
		e, ok := valueEnc[op.V]
		if !ok {
			e = dumpEncode(sess.Value(op.V))
			valueEnc[op.V] = e
		}
		m[op.K] = e
	case "del":
		delete(m, op.K)
	}
}

func dumpEncode(v []byte) string {
	if len(v) > 64 {
		h := sha256.Sum256(v)
		return fmt.Sprintf("#%d:%s", len(v), hex.EncodeToString(h[:8]))
	}
	return string(v)
}

func mapStr(m map[string]string) string {
	var ks []string
	for k := range m {
		ks = append(ks, k)
	}
	sort.Strings(ks)
	var b strings.Builder
	for _, k := range ks {
		v := m[k]
		if len(v) > 12 {
			v = v[:12] + ".."
		}
		fmt.Fprintf(&b, "%s=%s ", k, v)
	}
	return "{" + strings.TrimSpace(b.String()) + "}"
}

func dumpMap(d sess.Dump) map[string]string {
	m := map[string]string{}
	for k, v := range d.Gets {
		if v != nil {
			m[k] = *v
		}
	}
	return m
}

func mapsEq(a, b map[string]string) bool {
	if len(a) != len(b) {
		return false
	}
	for k, v := range a {
		if w, ok := b[k]; !ok || w != v {
			return false
		}
	}
	return true
}

// recoverImage materialises an image and runs `vchild recover` on it (untraced).
func recoverImage(tr *ktrace.Trace, img ktrace.Image, dir string, keys []string) (d sess.Dump, exit int, stderr string, err error) {
	os.RemoveAll(dir)
	if err = tr.Materialize(img, dir); err != nil {
		return
	}
	return runRecover(dir, keys)
}

func runRecover(dir string, keys []string) (d sess.Dump, exit int, stderr string, err error) {
	return runChildDump(binPath("vchild"), append([]string{"recover", dir}, keys...)...)
}

// recoverImageWith recovers an image with non-default options for the recovering session (see vchild VCHILD_RECOVER_OPTS).
func recoverImageWith(tr *ktrace.Trace, img ktrace.Image, dir string, keys []string, ropts string) (d sess.Dump, exit int, stderr string, err error) {
	os.RemoveAll(dir)
	if err = tr.Materialize(img, dir); err != nil {
		return
	}
	childEnv = []string{"VCHILD_RECOVER_OPTS=" + ropts}
	defer func() { childEnv = nil }()
	return runRecover(dir, keys)
}

var childEnv []string

func hashHex(b []byte) string {
	h := sha256.Sum256(b)
	return hex.EncodeToString(h[:8])
}

// runChildDump runs a vchild mode that prints a sess.Dump.
func runChildDump(bin string, args ...string) (d sess.Dump, exit int, stderr string, err error) {
	cmd := exec.Command(bin, args...)
	var out, errb bytes.Buffer
	cmd.Stdout, cmd.Stderr = &out, &errb
	cmd.Env = append(append(os.Environ(), "VERIF_MARKERS="), childEnv...)
	done := make(chan error, 1)
	if err = cmd.Start(); err != nil {
		return
	}
	go func() { done <- cmd.Wait() }()
	select {
	case werr := <-done:
		if werr != nil {
			if ee, ok := werr.(*exec.ExitError); ok {
				exit = ee.ExitCode()
			} else {
				err = werr
				return
			}
		}
	case <-time.After(120 * time.Second):
		cmd.Process.Kill()
		<-done
		exit = -9
		stderr = "recovery process made no progress for 120 s (killed)"
		return
	}
	stderr = tail(errb.String(), 800)
	if exit == 0 {
		if jerr := json.Unmarshal(out.Bytes(), &d); jerr != nil {
			err = fmt.Errorf("bad dump: %v: %s", jerr, out.String())
		}
	}
	return
}

func tail(s string, n int) string {
	if len(s) > n {
		return s[len(s)-n:]
	}
	return s
}

func writeSession(dir string, s sess.Session) string {
	p := filepath.Join(dir, "session.json")
	os.WriteFile(p, core.J(s), 0o644)
	return p
}

func sessStr(s sess.Session) string {
	var parts []string
	for i, o := range s.Ops {
		if len(s.Ops) > 40 && i >= 8 && i < len(s.Ops)-3 {
			if i == 8 {
				parts = append(parts, fmt.Sprintf("... (%d more operations of the same pattern) ...", len(s.Ops)-11))
			}
			continue
		}
		parts = append(parts, o.String())
	}
	return strings.Join(parts, " ")
}

// lastCompleted describes the last completed mutating call before an event (for finding signatures).
func lastCompleted(tr *ktrace.Trace, ev int) (e ktrace.Event, ok bool) {
	if ev < 0 {
		ev = len(tr.Events)
	}
	for i := ev - 1; i >= 0; i-- {
		if tr.Events[i].Kind == "call" {
			return tr.Events[i], true
		}
	}
	return ktrace.Event{}, false
}

func nextCall(tr *ktrace.Trace, ev int) (e ktrace.Event, ok bool) {
	if ev < 0 {
		return ktrace.Event{}, false
	}
	if tr.Events[ev].Kind == "call" {
		return tr.Events[ev], true
	}
	for i := ev + 1; i < len(tr.Events); i++ {
		if tr.Events[i].Kind == "call" {
			return tr.Events[i], true
		}
	}
	return ktrace.Event{}, false
}

func fileKind(p string) string {
	switch {
	case strings.HasSuffix(p, ".wal"):
		return "wal-file"
	case p == "wal":
		return "wal-dir"
	case strings.HasPrefix(p, "sstable_compaction"):
		if strings.HasSuffix(p, "compaction_successful") {
			return "compaction-flag"
		}
		return "compaction-" + filepath.Base(p)
	case strings.HasPrefix(p, "sstable_"):
		if strings.Contains(p, "/") {
			return "table-" + filepath.Base(p)
		}
		return "table-dir"
	}
	return p
}
