package checks

import (
	"encoding/json"
	"errors"
	"fmt"
	"io"
	"os"
	"path/filepath"
	"sort"
	"strings"
	"sync"
	"time"

	"github.com/thomasjungblut/go-sstables/recordio"
	"github.com/thomasjungblut/go-sstables/simpledb"
	"github.com/thomasjungblut/go-sstables/sstables"
	"verif/internal/core"
	"verif/shim/vsched"
)

// C18: documented concurrent use is data-race free and gives single-threaded answers.
// Every enumerated schedule runs in a -race build whose scheduler hand-offs are invisible
// to the detector (see shim/vsched), so a report is a race of the program itself.

type c18 struct{}

func init()            { core.Register(c18{}) }
func (c18) ID() string { return "C18" }

type c18Case struct {
	Sched schedCase `json:"sched"`
	Free  string    `json:"free,omitempty"` // free-running cross-check of a scenario
}

// ---- reader scenarios

type rdScenario struct {
	kind    string // "table" | "mmap"
	threads [][]string
	qb, tb  int
}

func (r rdScenario) Name() string {
	var ts []string
	for _, t := range r.threads {
		ts = append(ts, strings.Join(t, ";"))
	}
	return r.kind + ":" + strings.Join(ts, "|")
}
func (r rdScenario) Bound(tier string) int {
	if tier == "thorough" {
		return r.tb
	}
	return r.qb
}

var tableCalls = []string{"get(a)", "get(c)", "get(zz)", "contains(c)", "contains(zz)", "range(b,d)", "from(c)"}
var mmapCalls = []string{"at(0)", "at(1)", "at(2)", "seek(0)", "seek(mid)", "seek(2)"}

func c18ReaderScenarios(tier string) []schedScenario {
	var out []schedScenario
	deep := map[string]bool{"get(a)|get(c)": true, "get(c)|range(b,d)": true, "range(b,d)|from(c)": true, "get(zz)|contains(c)": true,
		"at(0)|at(2)": true, "at(1)|seek(0)": true, "seek(mid)|seek(2)": true}
	for _, set := range []struct {
		kind  string
		calls []string
	}{{"table", tableCalls}, {"mmap", mmapCalls}} {
		for _, a := range set.calls {
			for _, b := range set.calls {
				qb, tb := 1, 2
				if deep[a+"|"+b] {
					qb, tb = 1, 3
					if a+"|"+b == "get(a)|get(c)" || a+"|"+b == "at(0)|at(2)" {
						qb = 2
					}
					if a+"|"+b == "range(b,d)|from(c)" {
						tb = 2
					}
				}
				out = append(out, rdScenario{kind: set.kind, threads: [][]string{{a}, {b}}, qb: qb, tb: tb})
			}
		}
		// the other compression types keep per-file compressor objects that every call shares: a few pairs each
		for _, comp := range []string{"none", "gzip", "lzw"} {
			c := set.calls
			pairs := [][2]string{{c[0], c[1]}, {c[0], c[0]}, {c[1], c[5]}}
			for _, p := range pairs {
				out = append(out, rdScenario{kind: set.kind + "-" + comp, threads: [][]string{{p[0]}, {p[1]}}, qb: 1, tb: 2})
			}
		}
		if set.kind == "table" {
			// the non-default per-read hash check shares whatever digest state the reader keeps
			for _, p := range [][2]string{{"get(a)", "get(d)"}, {"get(a)", "get(a)"}, {"get(e)", "range(b,d)"}, {"range(b,d)", "from(c)"}, {"get(a)", "contains(c)"}} {
				out = append(out, rdScenario{kind: "tablevor", threads: [][]string{{p[0]}, {p[1]}}, qb: 1, tb: 2})
			}
			// tables written by earlier versions of the library (other record format, other value encoding)
			for _, lk := range []string{"tablelegA", "tablelegB", "tablelegC"} {
				for _, p := range [][2]string{{"get(#1)", "get(#5)"}, {"get(#3)", "range(#2,#6)"}, {"contains(#9)", "from(#4)"}} {
					out = append(out, rdScenario{kind: lk, threads: [][]string{{p[0]}, {p[1]}}, qb: 1, tb: 2})
				}
			}
		} else {
			// records beyond every internal size class (pool buckets, scratch buffers): two of 1.1 MiB, uncompressed and snappy
			for _, bk := range []string{"mmapbig-none", "mmapbig-snappy"} {
				for _, p := range [][2]string{{"at(0)", "at(1)"}, {"at(1)", "at(1)"}, {"at(0)", "seek(0)"}} {
					out = append(out, rdScenario{kind: bk, threads: [][]string{{p[0]}, {p[1]}}, qb: 1, tb: 2})
				}
			}
			// record files of the earlier format versions take their own read paths
			var lks []string
			for lk := range c18LegacyFiles {
				lks = append(lks, lk)
			}
			sort.Strings(lks)
			for _, lk := range lks {
				for _, p := range [][2]string{{"at(0)", "at(1)"}, {"at(1)", "at(1)"}, {"at(0)", "seek(0)"}, {"seek(mid)", "at(2)"}} {
					if strings.Contains(lk, "v1") && strings.Contains(p[0]+p[1], "seek") {
						continue // SeekNext is documented as unsupported below version 2
					}
					out = append(out, rdScenario{kind: lk, threads: [][]string{{p[0]}, {p[1]}}, qb: 1, tb: 2})
				}
			}
		}
		// three goroutines, and two calls per goroutine
		c := set.calls
		out = append(out, rdScenario{kind: set.kind, threads: [][]string{{c[0]}, {c[1]}, {c[5]}}, qb: 1, tb: 2})
		out = append(out, rdScenario{kind: set.kind, threads: [][]string{{c[0], c[5]}, {c[1], c[3]}}, qb: 1, tb: 2})
	}
	return out
}

func c18ScenarioByName(name string) schedScenario {
	if s := c05ScenarioByName(name); s != nil {
		return s
	}
	i := strings.Index(name, ":")
	if i < 0 {
		return nil
	}
	r := rdScenario{kind: name[:i], qb: 1, tb: 2}
	for _, t := range strings.Split(name[i+1:], "|") {
		r.threads = append(r.threads, strings.Split(t, ";"))
	}
	return r
}

var c18LegacyFiles = map[string]string{
	"mmaplegv1s": "v1_compat/recordio_SnappyWriterMultiRecord_asc",
	"mmaplegv1u": "v1_compat/recordio_UncompressedWriterMultiRecord_asc",
	"mmaplegv2s": "v2_compat/recordio_SnappyWriterMultiRecord_asc",
	"mmaplegv2u": "v2_compat/recordio_UncompressedWriterMultiRecord_asc",
	"mmaplegv3s": "v3_compat/recordio_SnappyWriterMultiRecord_asc",
	"mmaplegv3u": "v3_compat/recordio_UncompressedWriterMultiRecord_asc",
}

var c18LegacyTables = map[string]string{
	"tablelegA": "SimpleWriteHappyPathSSTable",
	"tablelegB": "SimpleWriteHappyPathSSTableRecordIOV2",
	"tablelegC": "v0_compat/SimpleWriteHappyPathSSTableWithBloom",
}

// legacyOffsets finds the record offsets of a legacy file with the sequential reader's help: the n-th record starts
// where the reader has consumed n records (the file reader counts its position; we re-derive it from ReadNextAt probing).
func legacyOffsets(mm recordio.ReadAtI, path string) []uint64 {
	data := readAll(path)
	var offs []uint64
	// records are dense from the 8-byte file header on: walk with ReadNextAt + a sequential reader for the lengths
	fr, err := recordio.NewFileReaderWithPath(path)
	if err != nil || fr.Open() != nil {
		return nil
	}
	defer fr.Close()
	off := uint64(8)
	for off < uint64(len(data)) && len(offs) < 4 {
		want, err := fr.ReadNext()
		if err != nil {
			break
		}
		// the record starts at the first offset >= off where a random-access read returns the same record
		found := false
		for o := off; o < uint64(len(data)) && o < off+64; o++ {
			got, err := mm.ReadNextAt(o)
			if err == nil && recEq(got, want) {
				offs = append(offs, o)
				off = o + 1
				found = true
				break
			}
		}
		if !found {
			break
		}
	}
	return offs
}

var c18Table = []kv{{[]byte("a"), []byte("alpha")}, {[]byte("b"), []byte("bravo-bravo")}, {[]byte("c"), nil}, {[]byte("d"), []byte("delta")}, {[]byte("e"), incompressible(200, 9)}}

func (r rdScenario) Exec(w *core.WCtx, prefix []int) (x schedExec) {
	dir := w.Dir()
	defer os.RemoveAll(dir)
	var call func(name string) string
	var closeFn func() error
	comp := 2 // snappy
	kind := r.kind
	if i := strings.Index(kind, "-"); i >= 0 {
		comp = map[string]int{"none": 0, "gzip": 1, "snappy": 2, "lzw": 3}[kind[i+1:]]
		kind = kind[:i]
	}
	if kind == "table" || kind == "tablevor" {
		if err := writeTable(dir, c18Table, tblW{Writer: "stream", DataComp: comp, WBuf: 4096}); err != nil {
			return schedExec{Problems: []string{"setup: " + err.Error()}}
		}
		rd, err := openTable(dir, tblR{RBuf: 4096, VerifyOnRead: kind == "tablevor"})
		if err != nil {
			return schedExec{Problems: []string{"setup: " + err.Error()}}
		}
		closeFn = rd.Close
		call = func(name string) string { return tableCall(rd, name) }
	} else if rel, ok := c18LegacyTables[kind]; ok {
		rd, err := openTable(filepath.Join(repoRoot(), "sstables", "test_files", rel), tblR{RBuf: 4096})
		if err != nil {
			return schedExec{Problems: []string{"setup: " + err.Error()}}
		}
		closeFn = rd.Close
		call = func(name string) string { return tableCall(rd, name) }
	} else if rel, ok := c18LegacyFiles[kind]; ok {
		path := filepath.Join(repoRoot(), "recordio", "test_files", rel)
		mm, err := recordio.NewMemoryMappedReaderWithPath(path)
		if err == nil {
			err = mm.Open()
		}
		if err != nil {
			return schedExec{Problems: []string{"setup: " + err.Error()}}
		}
		m := rioModel{Offs: legacyOffsets(mm, path)}
		if len(m.Offs) < 3 {
			mm.Close()
			return schedExec{Problems: []string{fmt.Sprintf("setup: only %d record offsets found in legacy file %s", len(m.Offs), rel)}}
		}
		closeFn = mm.Close
		call = func(name string) string { return mmapCall(mm, m, name) }
	} else {
		path := filepath.Join(dir, "f.rio")
		prog, alpha := []wop{{"W", rioRecIndex("a")}, {"W", rioRecIndex("x918d")}, {"W", rioRecIndex("nil")}, {"W", rioRecIndex("mk00ff")}}, rioAlphabet()
		if kind == "mmapbig" {
			alpha = []rioRec{{"i1153434", incompressible(1153434, 51)}, {"j1153434", incompressible(1153434, 52)}, {"a", []byte("a")}}
			prog = []wop{{"W", 0}, {"W", 1}, {"W", 2}}
		}
		m, _, err := rioWrite(path, prog, rioCfg{Comp: comp, WBuf: 4096}, alpha)
		if err != nil {
			return schedExec{Problems: []string{"setup: " + err.Error()}}
		}
		mm, err := recordio.NewMemoryMappedReaderWithPath(path)
		if err == nil {
			err = mm.Open()
		}
		if err != nil {
			return schedExec{Problems: []string{"setup: " + err.Error()}}
		}
		closeFn = mm.Close
		call = func(name string) string { return mmapCall(mm, m, name) }
	}
	defer closeFn()
	results := make([][]string, len(r.threads))
	// harness data crosses goroutines through a real channel: the scheduler's hand-offs are invisible to the race
	// detector, so the harness must not share plain variables. (The only edges this adds run from the end of a
	// client goroutine to the main goroutine, they order no two client calls.)
	type resMsg struct {
		ti  int
		res []string
	}
	resCh := make(chan resMsg, len(r.threads))
	alone := map[string]string{}
	var problems []string
	s := vsched.Run(prefix, func() {
		vsched.Quiet(true)
		// the single-threaded answers
		for _, t := range r.threads {
			for _, c := range t {
				if _, ok := alone[c]; !ok {
					alone[c] = call(c)
				}
			}
		}
		vsched.Quiet(false)
		for ti := range r.threads {
			ti := ti
			calls := r.threads[ti]
			vsched.GoClient(fmt.Sprintf("reader%d", ti), func() {
				var mine []string
				defer func() { resCh <- resMsg{ti, mine} }()
				for _, c := range calls {
					var res string
					func() {
						defer func() {
							if p := recover(); p != nil {
								res = fmt.Sprintf("PANIC: %v", p)
							}
						}()
						res = call(c)
					}()
					mine = append(mine, res)
				}
			})
		}
		vsched.JoinClients()
		vsched.Quiet(true)
		for range r.threads {
			m := <-resCh
			results[m.ti] = m.res
		}
	})
	x.Choices = append([]vsched.Choice{}, s.Trace[:s.NTrace]...)
	for ti, t := range r.threads {
		for ci, c := range t {
			if ci >= len(results[ti]) {
				problems = append(problems, fmt.Sprintf("goroutine %d never finished %s", ti, c))
				continue
			}
			x.Ops++
			if results[ti][ci] != alone[c] {
				problems = append(problems, fmt.Sprintf("goroutine %d: %s returned %s, executed alone it returns %s", ti, c, results[ti][ci], alone[c]))
			}
		}
	}
	x.Problems = problems
	x.Outcome = fmt.Sprintf("ok=%v", len(problems) == 0)
	return x
}

// c18Key: "#n" denotes the 4-byte big-endian key n of the legacy fixtures
func c18Key(arg string) []byte {
	if strings.HasPrefix(arg, "#") {
		var n uint32
		fmt.Sscan(arg[1:], &n)
		return be32(n)
	}
	return []byte(arg)
}

func tableCall(rd sstables.SSTableReaderI, name string) string {
	arg := name[strings.Index(name, "(")+1 : len(name)-1]
	switch {
	case strings.HasPrefix(name, "get("):
		v, err := rd.Get(c18Key(arg))
		if errors.Is(err, sstables.NotFound) {
			return "notfound"
		}
		if err != nil {
			return "ERR:" + err.Error()
		}
		return recStr(v)
	case strings.HasPrefix(name, "contains("):
		ok, err := rd.Contains(c18Key(arg))
		return fmt.Sprint(ok, err)
	case strings.HasPrefix(name, "range("):
		ab := strings.Split(arg, ",")
		it, err := rd.ScanRange(c18Key(ab[0]), c18Key(ab[1]))
		if err != nil {
			return "ERR:" + err.Error()
		}
		got, err := drain(it, 20)
		return fmt.Sprint(kvsStr(got), err)
	case strings.HasPrefix(name, "from("):
		it, err := rd.ScanStartingAt(c18Key(arg))
		if err != nil {
			return "ERR:" + err.Error()
		}
		got, err := drain(it, 20)
		return fmt.Sprint(kvsStr(got), err)
	}
	return "?"
}

func mmapCall(mm recordio.ReadAtI, m rioModel, name string) string {
	arg := name[strings.Index(name, "(")+1 : len(name)-1]
	switch {
	case strings.HasPrefix(name, "at("):
		var i int
		fmt.Sscan(arg, &i)
		v, err := mm.ReadNextAt(m.Offs[i])
		return fmt.Sprint(recStr(v), err)
	case strings.HasPrefix(name, "seek("):
		var o uint64
		switch arg {
		case "0":
			o = 0
		case "mid":
			o = m.Offs[1] + 3
		default:
			o = m.Offs[2]
		}
		off, v, err := mm.SeekNext(o)
		if errors.Is(err, io.EOF) {
			return "EOF"
		}
		return fmt.Sprint(off, recStr(v), err)
	}
	return "?"
}

func (c c18) Run(ctx *core.Ctx) error {
	ctx.CaseTimeout = 5 * time.Minute
	ctx.Ev.Rule = "every interleaving within the preemption bound, each executed in a -race build whose scheduler hand-offs add no happens-before edges: (a) the C05 SimpleDB scenarios (quick: bound 1, S4 0; thorough: C05's quick bounds); (b) 2-3 goroutines x 1-2 calls from {Get, Contains, ScanRange drained, ScanStartingAt drained} on one table reader (default loader), every ordered pair of calls; (c) the same for {ReadNextAt, SeekNext} on one memory-mapped RecordIO reader; (b) also with the per-read hash check enabled and on legacy fixture tables, (c) also on the version 1/2/3 fixture files; in (b),(c) every statement of the reader/index/iterator/mmap files is a scheduling point and the buffer pool is a deterministic LIFO pool (maximal reuse). Oracle: no race report, no panic, every call returns what it returns when executed alone (linearizable history for the database). distinct = (scenario, outcome class); non-trivial = executions with at least one preemption"
	ctx.Ev.Assume = []string{"the race detector keeps a bounded access history per memory word (it can miss, never invent, a race); scenarios are short",
		"GOMAXPROCS=1: the detector's verdict depends on the order of synchronisation operations, which is what the schedule enumeration varies"}
	// (a) SimpleDB scenarios, this binary (simpledb rewritten, -race)
	var scns []schedScenario
	for _, s := range c05Scenarios() {
		b := s.Bound(ctx.Tier)
		if b < 0 {
			continue
		}
		// the race clause needs the orders of synchronisation operations, bound 1 in quick is enough for the linearizability
		// clause to be shared with C05; the detector runs on every explored schedule
		if ctx.Tier != "thorough" && b > 1 {
			s.quickBound = 1
		}
		if ctx.Tier != "thorough" && s.name == "S4-compaction-under-read-and-flush" {
			s.quickBound = 0
		}
		if ctx.Tier == "thorough" {
			// the race build is 5-10x slower than C05's: thorough here = C05's quick bounds (2; S4 and the 3-thread S2r: 1)
			s.thoroughBound = s.quickBound
			if s.quickBound < 0 {
				s.thoroughBound = 1
			}
		}
		scns = append(scns, s)
	}
	runSchedCheck(ctx, scns, func(sc schedCase) json.RawMessage { return core.J(c18Case{Sched: sc}) })
	// (b),(c): finer instrumented build
	ctx.WorkerBin = binPath("vschedfine-race")
	runSchedCheck(ctx, c18ReaderScenarios(ctx.Tier), func(sc schedCase) json.RawMessage { return core.J(c18Case{Sched: sc}) })
	// supplementary: free-running -race pass of the same bodies (real parallelism)
	ctx.WorkerBin = ""
	ctx.WorkerEnv = []string{"GOMAXPROCS=8"}
	var free []json.RawMessage
	for _, s := range c05Scenarios() {
		free = append(free, core.J(c18Case{Free: s.name}))
	}
	rs := ctx.Pmap(free)
	ctx.Fold(rs, free)
	for i, r := range rs {
		if r.Died {
			reportSchedDeath(ctx, r, free[i])
		}
	}
	return nil
}

func (c c18) Case(w *core.WCtx, payload json.RawMessage) core.Result {
	var cs c18Case
	json.Unmarshal(payload, &cs)
	if cs.Free != "" {
		return c.freeRun(w, cs.Free)
	}
	scn := c18ScenarioByName(cs.Sched.Scenario)
	if scn == nil {
		return core.Result{Viol: []core.Violation{{Desc: "unknown scenario " + cs.Sched.Scenario}}}
	}
	r := schedWorker(w, scn, cs.Sched)
	for i := range r.Viol {
		var sc schedCase
		if json.Unmarshal(r.Viol[i].Case, &sc) == nil {
			r.Viol[i].Case = core.J(c18Case{Sched: sc})
		}
	}
	return r
}

// freeRun executes a database scenario with real parallelism (no scheduler) a number of times under -race.
func (c c18) freeRun(w *core.WCtx, name string) core.Result {
	var r core.Result
	quietLogs()
	var d dbScenario
	for _, s := range c05Scenarios() {
		if s.name == name {
			d = s
		}
	}
	for iter := 0; iter < 40; iter++ {
		dir := w.Dir()
		fopts := []simpledb.ExtraOption{simpledb.DisableCompactions(), simpledb.MemstoreSizeBytes(d.mem),
			simpledb.CompactionFileThreshold(d.thresh), simpledb.WriteBufferSizeBytes(4096), simpledb.ReadBufferSizeBytes(4096)}
		if d.maxSize > 0 {
			fopts = append(fopts, simpledb.CompactionMaxSizeBytes(d.maxSize))
		}
		db, err := simpledb.NewSimpleDB(dir, fopts...)
		if err == nil {
			err = db.Open()
		}
		if err != nil {
			r.Viol = append(r.Viol, core.Violation{Desc: "free run: open: " + err.Error()})
			return r
		}
		for _, o := range d.setup {
			switch o.Op {
			case "put":
				db.Put(o.K, o.V)
			case "del":
				db.Delete(o.K)
			case "rot":
				db.VerifRotateAndWait()
			}
		}
		var wg sync.WaitGroup
		for ti := range d.threads {
			wg.Add(1)
			go func(ops []cop) {
				defer wg.Done()
				for _, o := range ops {
					switch o.Op {
					case "get":
						db.Get(o.K)
					case "put":
						db.Put(o.K, o.V)
					case "del":
						db.Delete(o.K)
					case "compact":
						db.VerifCompactOnce()
					}
				}
			}(d.threads[ti])
		}
		wg.Wait()
		db.Close()
		os.RemoveAll(dir)
		r.Traces++
	}
	r.Extra = map[string]int64{"free_running_race_executions": r.Traces}
	r.Outcome = "free-running"
	return r
}
