package checks

import (
	"bytes"
	"errors"
	"fmt"
	"io"
	"log"
	"os"
	"path/filepath"
	"sort"
	"strings"

	"github.com/thomasjungblut/go-sstables/simpledb"
	"github.com/thomasjungblut/go-sstables/sstables"
	"verif/internal/core"
)

// dbx: shared SimpleDB session executor for C01, C06, C17, C19. A session is a
// list of operations executed on the real DB in a fresh directory; compaction
// cycles and rotations are explicit operations (ticker disabled), so every
// placement of flush and compaction between client operations is an enumerable program.

type dbCfg struct {
	Mem     uint64  `json:"mem"`
	Thresh  int     `json:"thresh"`
	MaxSize uint64  `json:"maxsize"`
	Ratio   float32 `json:"ratio"`
	RBuf    uint64  `json:"rbuf"`
	WBuf    uint64  `json:"wbuf"`
}

func (c dbCfg) options() []simpledb.ExtraOption {
	o := []simpledb.ExtraOption{simpledb.DisableCompactions()}
	if c.Mem > 0 {
		o = append(o, simpledb.MemstoreSizeBytes(c.Mem))
	}
	o = append(o, simpledb.CompactionFileThreshold(c.Thresh))
	if c.MaxSize > 0 {
		o = append(o, simpledb.CompactionMaxSizeBytes(c.MaxSize))
	}
	o = append(o, simpledb.CompactionRatio(c.Ratio))
	if c.RBuf > 0 {
		o = append(o, simpledb.ReadBufferSizeBytes(c.RBuf))
	}
	if c.WBuf > 0 {
		o = append(o, simpledb.WriteBufferSizeBytes(c.WBuf))
	}
	return o
}

type dbOp struct {
	Op string `json:"op"` // put del rot cmp reopen churn get
	K  int    `json:"k,omitempty"`
	V  int    `json:"v,omitempty"`
	C  int    `json:"c,omitempty"`
}

func (o dbOp) String() string {
	switch o.Op {
	case "put":
		return fmt.Sprintf("Put(%s,%s)", dbKeyNames[o.K], dbValNames[o.V])
	case "del":
		return fmt.Sprintf("Delete(%s)", dbKeyName(o.K))
	case "putrot":
		return fmt.Sprintf("Put(%s,%s)+Flush", dbKeyNames[o.K], dbValNames[o.V])
	case "delrot":
		return fmt.Sprintf("Delete(%s)+Flush", dbKeyName(o.K))
	case "rot":
		return "Rotate+Flush"
	case "cmp":
		return "Compact"
	case "reopen":
		return fmt.Sprintf("Reopen(c%d)", o.C)
	case "churn":
		return fmt.Sprintf("Churn(%s)", dbKeyNames[o.K])
	}
	return o.Op
}

func dbProgStr(init int, ops []dbOp) string {
	s := []string{fmt.Sprintf("Open(c%d)", init)}
	for _, o := range ops {
		s = append(s, o.String())
	}
	return strings.Join(s, " ")
}

var dbKeys = [][]byte{[]byte("a"), []byte("b"), []byte("c"), {0, 0, 0, 3}}
var dbKeyNames = []string{"a", "b", "c", "L3"} // L3 = a key of the legacy fixture tables

// dbEmptyKey (operation key index 4): only deletable - Put rejects it, Delete accepts it and logs/flushes a tombstone for it
const dbEmptyKey = 4

func dbKey(k int) []byte {
	if k == dbEmptyKey {
		return []byte{}
	}
	return dbKeys[k]
}

func dbKeyName(k int) string {
	if k == dbEmptyKey {
		return "<empty>"
	}
	return dbKeyNames[k]
}

var dbVals = [][]byte{[]byte("x"), incompressible(300, 21), incompressible(50, 22), incompressible(300, 23)}
var dbValNames = []string{"x", "Y300", "Z50", "W300"}

const churnN = 400

type dbSession struct {
	dir    string
	cfgs   []dbCfg
	db     *simpledb.DB
	cfg    int
	ref    map[string][]byte // reference map (absent = not found)
	r      *core.Result
	viol   func(sig, f string, a ...any)
	closed bool
	extra  [][]byte // further keys to probe (content of a pre-seeded legacy table)
	// slices handed out by GetBytes earlier in the session, with a private copy of what they held at that time
	kept []keptRead
	// walRecordsAtClose: after a clean Close some WAL file still held records (D13 matcher)
	walRecordsAtClose bool
}

type keptRead struct {
	key        string
	slice, was []byte
	at         int
}

// retain reads every key with GetBytes and keeps the returned slices: what a call has returned belongs to the caller,
// no later operation on the database may change it.
func (s *dbSession) retain(at int) {
	for _, k := range dbKeys {
		if v, err := s.db.GetBytes(k); err == nil && len(v) > 0 {
			s.kept = append(s.kept, keptRead{string(k), v, append([]byte{}, v...), at})
		}
	}
}

func (s *dbSession) checkRetained(i int, op dbOp) {
	for _, kr := range s.kept {
		s.r.Evals++
		if !bytes.Equal(kr.slice, kr.was) {
			s.viol("", "after op %d %v: the slice that GetBytes(%s) returned before op %d has changed: it held %s, now %s", i, op, kr.key, kr.at, valName(kr.was), valName(kr.slice))
			s.kept = nil
			return
		}
	}
}

func quietLogs() { log.SetOutput(io.Discard) }

func openDB(dir string, cfg dbCfg) (*simpledb.DB, error) {
	db, err := simpledb.NewSimpleDB(dir, cfg.options()...)
	if err != nil {
		return nil, err
	}
	if err := db.Open(); err != nil {
		return nil, err
	}
	return db, nil
}

// newSession opens a database in dir. seed (optional): a legacy fixture table that is placed in the directory as the
// oldest table before the first Open - a directory written by an earlier version of the library.
func newSession(dir string, cfgs []dbCfg, init int, r *core.Result, viol func(sig, f string, a ...any), seed ...legacyFixture) *dbSession {
	quietLogs()
	s := &dbSession{dir: dir, cfgs: cfgs, cfg: init, ref: map[string][]byte{}, r: r, viol: viol}
	for _, fx := range seed {
		td := filepath.Join(dir, fmt.Sprintf(simpledb.SSTablePattern, 1))
		mustMkdir(td)
		ents, err := os.ReadDir(fx.Dir())
		if err != nil {
			viol("", "harness: cannot read fixture %s: %v", fx.Dir(), err)
			return nil
		}
		for _, e := range ents {
			data, err := os.ReadFile(filepath.Join(fx.Dir(), e.Name()))
			if err != nil || os.WriteFile(filepath.Join(td, e.Name()), data, 0o644) != nil {
				viol("", "harness: cannot copy fixture file %s", e.Name())
				return nil
			}
		}
		for _, e := range fx.KVs {
			s.ref[string(e.K)] = e.V
			if !bytes.Equal(e.K, dbKeys[3]) {
				s.extra = append(s.extra, e.K)
			}
		}
	}
	db, err := openDB(dir, cfgs[init])
	if err != nil {
		viol("", "initial Open failed: %v", err)
		return nil
	}
	s.db = db
	return s
}

// apply executes one op; false = the session cannot continue (API error).
func (s *dbSession) apply(i int, op dbOp) bool {
	s.r.Trans++
	switch op.Op {
	case "put", "putrot":
		if err := s.db.Put(string(dbKeys[op.K]), string(dbVals[op.V])); err != nil {
			s.viol("", "op %d %v returned %v", i, op, err)
			return false
		}
		s.ref[string(dbKeys[op.K])] = dbVals[op.V]
		if op.Op == "putrot" {
			if err := s.db.VerifRotateAndWait(); err != nil {
				s.viol("", "op %d forced rotation failed: %v", i, err)
				return false
			}
		}
	case "del", "delrot":
		if err := s.db.Delete(string(dbKey(op.K))); err != nil {
			s.viol("", "op %d %v returned %v", i, op, err)
			return false
		}
		delete(s.ref, string(dbKey(op.K)))
		if op.Op == "delrot" {
			if err := s.db.VerifRotateAndWait(); err != nil {
				s.viol("", "op %d forced rotation failed: %v", i, err)
				return false
			}
		}
	case "churn":
		n := churnN
		if s.cfgs[s.cfg].Mem > 0 && s.cfgs[s.cfg].Mem < 100 {
			n = 3 // every put rotates under such a memstore limit; the size-triggered WAL rotation needs one large record there
		}
		for j := 0; j < n; j++ {
			if err := s.db.Put(string(dbKeys[op.K]), string(dbVals[2])); err != nil {
				s.viol("", "op %d %v (overwrite %d) returned %v", i, op, j, err)
				return false
			}
		}
		s.ref[string(dbKeys[op.K])] = dbVals[2]
	case "rot":
		if err := s.db.VerifRotateAndWait(); err != nil {
			s.viol("", "op %d forced rotation failed: %v", i, err)
			return false
		}
	case "cmp":
		if !s.compact(i) {
			return false
		}
	case "reopen":
		if err := s.db.Close(); err != nil {
			s.viol("", "op %d Close returned %v", i, err)
			s.closed = true
			return false
		}
		s.closed = true
		for _, f := range walFiles(s.dir) {
			if st, err := os.Stat(filepath.Join(s.dir, simpledb.WriteAheadFolder, f)); err == nil && st.Size() > 8 {
				s.walRecordsAtClose = true
			}
		}
		db, err := openDB(s.dir, s.cfgs[op.C])
		if err != nil {
			s.viol("", "op %d re-Open with config %d failed: %v", i, op.C, err)
			return false
		}
		s.db, s.cfg, s.closed = db, op.C, false
	}
	if op.Op == "put" || op.Op == "del" || op.Op == "churn" {
		// a size-triggered rotation may be in flight: wait for the flusher so that the state (and the
		// canonical form) after every operation is deterministic
		s.db.VerifFlushBarrier()
	}
	return true
}

// compact runs one synchronous compaction cycle and checks the C06 clauses around it.
func (s *dbSession) compact(i int) bool {
	before := s.readAll()
	tables := s.db.VerifTables()
	selected, compacted, err := s.db.VerifCompactOnce()
	if err != nil {
		sig := ""
		if strings.Contains(err.Error(), "unexpected number of bloom filter elements, was: 0") {
			sig = "D19-compaction-bloom-zero"
		}
		s.viol(sig, "op %d compaction cycle failed: %v", i, err)
		return false
	}
	// selection must be a gap-free run of the live tables in age order
	if len(selected) > 0 {
		start := -1
		for j, t := range tables {
			if t == selected[0] {
				start = j
			}
		}
		ok := start >= 0 && start+len(selected) <= len(tables)
		if ok {
			for j := range selected {
				if tables[start+j] != selected[j] {
					ok = false
				}
			}
		}
		s.r.Evals++
		if !ok {
			s.viol("", "op %d compaction selected %v which is not a gap-free run of the live tables %v", i, selected, tables)
		}
	}
	after := s.readAll()
	s.r.Evals++
	if before != after {
		sig := ""
		if compacted && len(selected) > 0 && len(tables) > 0 && selected[0] != tables[0] {
			sig = "D11-tombstones-dropped-not-from-oldest"
		}
		s.viol(sig, "op %d compaction (selected %v of %v, executed=%v) changed reads: before %s after %s", i, selected, tables, compacted, before, after)
	}
	if s.r.Extra == nil {
		s.r.Extra = map[string]int64{}
	}
	if compacted {
		s.r.Extra["compactions_executed"]++
		if len(selected) < len(tables) {
			s.r.Extra["compactions_of_a_strict_subset"]++
		}
		if len(tables) > 0 && selected[0] != tables[0] {
			s.r.Extra["compactions_excluding_oldest"]++
		}
	} else {
		s.r.Extra["compaction_cycles_below_threshold"]++
	}
	return true
}

// readAll returns a printable snapshot of Get for the whole universe.
func (s *dbSession) readAll() string {
	var b strings.Builder
	for ki, k := range append(append([][]byte{}, dbKeys...), s.extra...) {
		name := fmt.Sprintf("%x", k)
		if ki < len(dbKeyNames) {
			name = dbKeyNames[ki]
		}
		v, err := s.db.Get(string(k))
		switch {
		case errors.Is(err, simpledb.ErrNotFound):
			fmt.Fprintf(&b, "%s=- ", name)
		case err != nil:
			fmt.Fprintf(&b, "%s=ERR(%v) ", name, err)
		default:
			fmt.Fprintf(&b, "%s=%s ", name, valName([]byte(v)))
		}
	}
	return b.String()
}

func valName(v []byte) string {
	for i, x := range dbVals {
		if bytes.Equal(v, x) {
			return dbValNames[i]
		}
	}
	return recStr(v)
}

// check compares Get/GetBytes of every universe key (and a never-written key) with the reference map.
func (s *dbSession) check(i int, op dbOp, sigf func(key string) string) {
	probe := append([][]byte{}, dbKeys...)
	probe = append(probe, s.extra...)
	probe = append(probe, []byte("never"))
	for _, k := range probe {
		s.r.Evals += 2
		want, ok := s.ref[string(k)]
		got, err := s.db.GetBytes(k)
		gs, errS := s.db.Get(string(k))
		if !ok {
			if !errors.Is(err, simpledb.ErrNotFound) || !errors.Is(errS, simpledb.ErrNotFound) {
				s.viol(sigf(string(k)), "after op %d %v: Get(%s) = %s,%v want not-found", i, op, k, valName(got), err)
			}
		} else if err != nil || errS != nil || !bytes.Equal(got, want) || gs != string(want) {
			s.viol(sigf(string(k)), "after op %d %v: Get(%s) = %s,%v want %s", i, op, k, valName(got), err, valName(want))
		}
	}
}

func (s *dbSession) close() {
	if s.db != nil && !s.closed {
		s.db.Close()
		s.closed = true
	}
}

// canon: canonical state of the database for explicit-state exploration.
// Reference map, both memstores, the ordered list of tables with their content,
// a size bucket (selection depends on TotalBytes vs the configured max size, which
// is always one of the enumerated thresholds) and tombstone/record counts, the
// number of WAL files, and the configuration.
func (s *dbSession) canon(sizeCuts []uint64) string {
	var b strings.Builder
	var keys []string
	for k := range s.ref {
		keys = append(keys, k)
	}
	sort.Strings(keys)
	for _, k := range keys {
		fmt.Fprintf(&b, "%s=%s;", k, valName(s.ref[k]))
	}
	b.WriteString("|W:")
	ws, rs := s.db.VerifMemstores()
	b.WriteString(iterStr(ws))
	b.WriteString("|R:")
	b.WriteString(iterStr(rs))
	b.WriteString("|T:")
	for _, t := range s.db.VerifTables() {
		dir := filepath.Join(s.dir, t)
		rd, err := sstables.NewSSTableReader(sstables.ReadBasePath(dir), sstables.ReadBufferSizeBytes(4096))
		if err != nil {
			fmt.Fprintf(&b, "[unreadable %v]", err)
			continue
		}
		it, _ := rd.Scan()
		md := rd.MetaData()
		bucket := 0
		for _, c := range sizeCuts {
			if md.TotalBytes >= c {
				bucket++
			}
		}
		fmt.Fprintf(&b, "[%s sz%d n%d t%d]", iterStr(it), bucket, md.NumRecords, md.NullValues)
		rd.Close()
	}
	wals, _ := filepath.Glob(filepath.Join(s.dir, simpledb.WriteAheadFolder, "*.wal"))
	fmt.Fprintf(&b, "|wal%d|c%d", len(wals), s.cfg)
	return b.String()
}

func iterStr(it sstables.SSTableIteratorI) string {
	var b strings.Builder
	for i := 0; i < 100; i++ {
		k, v, err := it.Next()
		if err != nil {
			break
		}
		if v == nil {
			fmt.Fprintf(&b, "%s=T,", k)
		} else {
			fmt.Fprintf(&b, "%s=%s,", k, valName(v))
		}
	}
	return b.String()
}

func walFiles(dir string) []string {
	ents, _ := os.ReadDir(filepath.Join(dir, simpledb.WriteAheadFolder))
	var out []string
	for _, e := range ents {
		out = append(out, e.Name())
	}
	return out
}
