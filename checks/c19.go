package checks

import (
	"bufio"
	"encoding/json"
	"fmt"
	"os"
	"path/filepath"
	"runtime"
	"strings"
	"time"

	"github.com/thomasjungblut/go-sstables/recordio"
	"github.com/thomasjungblut/go-sstables/simpledb"
	"github.com/thomasjungblut/go-sstables/skiplist"
	"github.com/thomasjungblut/go-sstables/sstables"
	"github.com/thomasjungblut/go-sstables/wal"
	"verif/internal/core"
)

// C19: descriptors, mappings and goroutines stay bounded and are released by Close.

type c19 struct{}

func init()            { core.Register(c19{}) }
func (c19) ID() string { return "C19" }

type c19Case struct {
	Kind   string     `json:"kind"` // "db" | "reader"
	Word   string     `json:"word"` // db: letters P C R; reader: letters per subject
	Repeat int        `json:"repeat,omitempty"`
	Ticker bool       `json:"ticker,omitempty"`
	Thresh int        `json:"thresh,omitempty"`
	Subj   string     `json:"subj,omitempty"`
	Sched  *schedCase `json:"sched,omitempty"`
	// Big: the database starts with one oversized table (larger than the 200-byte compaction size limit of this variant),
	// so that every later compaction cycle works on a run that does not start at the oldest table
	Big bool `json:"big,omitempty"`
}

func words(alpha string, maxLen int) []string {
	out := []string{""}
	prev := []string{""}
	for l := 1; l <= maxLen; l++ {
		var next []string
		for _, p := range prev {
			for _, a := range alpha {
				next = append(next, p+string(a))
			}
		}
		out = append(out, next...)
		prev = next
	}
	return out
}

func (c c19) Run(ctx *core.Ctx) error {
	var cases []json.RawMessage
	maxW, flat := 4, 7
	if ctx.Tier == "thorough" {
		maxW, flat = 5, 9
	}
	for _, tick := range []bool{false, true} {
		for _, th := range []int{1, 2} {
			for _, w := range words("PCR", maxW) {
				if w == "" {
					continue
				}
				cases = append(cases, core.J(c19Case{Kind: "db", Word: w, Repeat: 5, Ticker: tick, Thresh: th}))
			}
		}
	}
	for _, w := range words("PCR", flat) {
		if len(w) > maxW {
			cases = append(cases, core.J(c19Case{Kind: "db", Word: w, Repeat: 1, Thresh: 1}))
		}
	}
	// D = delete the key of the last P + flush (tables that hold nothing but tombstones, compactions that leave an empty table)
	for _, w := range words("PDCR", maxW) {
		if strings.Contains(w, "D") {
			cases = append(cases, core.J(c19Case{Kind: "db", Word: w, Repeat: 3, Thresh: 1}))
		}
	}
	// an oversized oldest table: compaction runs that do not start at the oldest table
	for _, th := range []int{1, 2} {
		for _, w := range words("PCR", maxW) {
			if w != "" {
				cases = append(cases, core.J(c19Case{Kind: "db", Word: w, Repeat: 3, Thresh: th, Big: true}))
			}
		}
	}
	for _, subj := range []string{"sstable-slice", "sstable-skiplist", "sstable-disk", "super", "rio-seq", "rio-mmap", "rio-writer", "wal-replay", "wal-append"} {
		for _, w := range words("SARTG", 4) {
			cases = append(cases, core.J(c19Case{Kind: "reader", Word: w, Subj: subj}))
		}
	}
	// objects that were constructed but never opened, or whose Open failed (a file shorter than its header, a table with a
	// cut index): Close - or the failed constructor itself - must release whatever was acquired so far
	for _, subj := range []string{"rio-seq-unopened", "rio-seq-openfail", "rio-mmap-unopened", "rio-mmap-openfail", "rio-writer-unopened", "sstable-openfail-slice", "sstable-openfail-disk", "sstable-openfail-data", "wal-replay-openfail"} {
		cases = append(cases, core.J(c19Case{Kind: "reader", Word: "", Subj: subj}))
	}
	// tables written by earlier versions of the library (other close paths), each loader, words up to length 2
	for fi := range legacyTables() {
		for _, l := range []string{"slice", "skiplist", "disk"} {
			for _, w := range words("SARTG", 2) {
				cases = append(cases, core.J(c19Case{Kind: "reader", Word: w, Subj: fmt.Sprintf("legacy-%d-%s", fi, l)}))
			}
		}
	}
	ctx.Ev.Rule = "database: every word of cycles over {P = put + forced rotation + flush, C = one compaction cycle, R = Close + Open} (plus words with D = delete of the last put key + flush, and all words again behind an oversized oldest table that every compaction run has to leave out) up to length 4 repeated 5 times (20 cycles) and every word up to length 7 once, x file threshold {1,2} x compaction goroutine {disabled, enabled with a 1 h ticker}; after every cycle the /proc/self/fd and /proc/self/maps entries under the database directory must be <= 2*live tables + 4, after every Close 0 entries and 0 goroutines inside simpledb, and at the end the directory must be removable. readers: every word up to length 4 over {S = full scan drained, A = scan abandoned after one step, R = range scan drained, T = starting-at scan abandoned, G = point read} on each of 9 subjects (table reader with 3 loaders, stacked reader, RecordIO sequential/mmap reader and writer, WAL replayer and appender), and up to length 2 on every legacy fixture table x 3 loaders, then Close: 0 entries. Close against the background goroutines: see bounds. distinct = word x subject/config; non-trivial = word length >= 2"
	ctx.Ev.Bounds["db_word_len_repeated"] = maxW
	ctx.Ev.Bounds["db_word_len_flat"] = flat
	rs := ctx.Pmap(cases)
	ctx.Fold(rs, cases)
	for i, r := range rs {
		if r.Died {
			ctx.Report(core.Violation{Desc: "worker died or hung: " + r.DiedMsg, Case: cases[i]})
		}
	}
	// Close against the real background goroutines: every interleaving within the preemption bound, in the
	// scheduler-instrumented build (the compaction ticker is a harness-driven event there)
	ctx.WorkerBin = binPath("vsched")
	ctx.WorkerEnv = []string{"GOMAXPROCS=1"}
	ctx.CaseTimeout = 5 * time.Minute
	var scns []schedScenario
	for _, s := range c19BgScenarios() {
		if s.Bound(ctx.Tier) >= 0 {
			scns = append(scns, s)
		}
	}
	ctx.Ev.Bounds["close_vs_background_goroutines"] = "4 scenarios (tick of the compaction timer | Close, with a flush or a read before Close), every schedule within the per-scenario preemption bound; after Close: 0 descriptors/mappings below the directory, no goroutine left (a stuck one is a deadlock)"
	runSchedCheck(ctx, scns, func(sc schedCase) json.RawMessage { return core.J(c19Case{Kind: "sched", Sched: &sc}) })
	return nil
}

// entriesUnder counts descriptors and memory mappings that refer to a path below dir.
func entriesUnder(dir string) (fds, maps int, detail []string) {
	ents, _ := os.ReadDir("/proc/self/fd")
	for _, e := range ents {
		t, err := os.Readlink("/proc/self/fd/" + e.Name())
		if err == nil && strings.HasPrefix(t, dir) {
			fds++
			detail = append(detail, "fd:"+strings.TrimPrefix(t, dir))
		}
	}
	f, err := os.Open("/proc/self/maps")
	if err == nil {
		sc := bufio.NewScanner(f)
		for sc.Scan() {
			if i := strings.Index(sc.Text(), dir); i >= 0 {
				maps++
				detail = append(detail, "map:"+strings.TrimPrefix(sc.Text()[i:], dir))
			}
		}
		f.Close()
	}
	return
}

// leakSeen: this worker process has already reported goroutines that outlive Close; they stay for the life of the
// process, so later cases need not wait the full settle time again
var leakSeen bool

func simpledbGoroutines() (int, string) {
	var last string
	rounds := 1000
	if leakSeen {
		rounds = 20
	}
	for i := 0; i < rounds; i++ {
		buf := make([]byte, 1<<20)
		n := runtime.Stack(buf, true)
		cnt := 0
		last = ""
		for _, g := range strings.Split(string(buf[:n]), "\n\n") {
			if strings.Contains(g, "go-sstables/simpledb.") && !strings.Contains(g, "verif/checks") {
				cnt++
				last += g + "\n"
			}
		}
		if cnt == 0 {
			return 0, ""
		}
		// a goroutine that has just released its last channel operation needs a moment to leave its function
		time.Sleep(10 * time.Millisecond)
	}
	leakSeen = true
	return strings.Count(last, "goroutine "), last
}

func (c c19) Case(w *core.WCtx, payload json.RawMessage) core.Result {
	var cs c19Case
	json.Unmarshal(payload, &cs)
	quietLogs()
	if cs.Kind == "db" {
		return c.dbCase(w, cs)
	}
	if cs.Kind == "sched" {
		scn := c05ScenarioByName(cs.Sched.Scenario)
		if scn == nil {
			return core.Result{Viol: []core.Violation{{Desc: "unknown scenario " + cs.Sched.Scenario}}}
		}
		r := schedWorker(w, scn, *cs.Sched)
		for i := range r.Viol {
			var sc schedCase
			if json.Unmarshal(r.Viol[i].Case, &sc) == nil {
				r.Viol[i].Case = core.J(c19Case{Kind: "sched", Sched: &sc})
			}
		}
		return r
	}
	return c.readerCase(w, cs)
}

func (c c19) dbCase(w *core.WCtx, cs c19Case) core.Result {
	var r core.Result
	dir := w.Dir()
	viol := func(f string, a ...any) {
		if len(r.Viol) < 5 {
			r.Viol = append(r.Viol, core.Violation{Desc: fmt.Sprintf("db word %q x%d ticker=%v thresh=%d: %s", cs.Word, cs.Repeat, cs.Ticker, cs.Thresh, fmt.Sprintf(f, a...))})
		}
	}
	defer func() {
		if p := recover(); p != nil {
			viol("panic: %v", p)
		}
	}()
	open := func() *simpledb.DB {
		opts := []simpledb.ExtraOption{simpledb.MemstoreSizeBytes(giB), simpledb.CompactionFileThreshold(cs.Thresh), simpledb.WriteBufferSizeBytes(4096), simpledb.ReadBufferSizeBytes(4096)}
		if cs.Big {
			opts = append(opts, simpledb.CompactionMaxSizeBytes(200))
		}
		if cs.Ticker {
			opts = append(opts, simpledb.CompactionRunInterval(time.Hour))
		} else {
			opts = append(opts, simpledb.DisableCompactions())
		}
		db, err := simpledb.NewSimpleDB(dir, opts...)
		if err != nil {
			viol("NewSimpleDB: %v", err)
			return nil
		}
		if err := db.Open(); err != nil {
			viol("Open: %v", err)
			return nil
		}
		return db
	}
	db := open()
	if db == nil {
		return r
	}
	afterClose := func(step int) {
		r.Evals += 2
		fds, maps, det := entriesUnder(dir)
		if fds+maps != 0 {
			viol("cycle %d: after Close %d descriptors and %d mappings remain: %v", step, fds, maps, det)
		}
		if n, st := simpledbGoroutines(); n != 0 {
			viol("cycle %d: after Close %d goroutine(s) are still inside simpledb:\n%s", step, n, st)
		}
	}
	step := 0
	maxSeen := 0
	lastKey := "k0"
	if cs.Big {
		if err := db.Put("big", string(incompressible(300, 77))); err != nil {
			viol("Put: %v", err)
			return r
		}
		if err := db.VerifRotateAndWait(); err != nil {
			viol("rotate: %v", err)
			return r
		}
	}
	for rep := 0; rep < cs.Repeat; rep++ {
		for _, ch := range cs.Word {
			step++
			r.Trans++
			switch ch {
			case 'D':
				if err := db.Delete(lastKey); err != nil {
					viol("Delete: %v", err)
					return r
				}
				if err := db.VerifRotateAndWait(); err != nil {
					viol("rotate: %v", err)
					return r
				}
			case 'P':
				lastKey = fmt.Sprintf("k%d", step%3)
				if err := db.Put(fmt.Sprintf("k%d", step%3), fmt.Sprintf("value-%d", step)); err != nil {
					viol("Put: %v", err)
					return r
				}
				if err := db.VerifRotateAndWait(); err != nil {
					viol("rotate: %v", err)
					return r
				}
			case 'C':
				if _, _, err := db.VerifCompactOnce(); err != nil {
					viol("compaction: %v", err)
					return r
				}
			case 'R':
				if err := db.Close(); err != nil {
					viol("Close: %v", err)
					return r
				}
				afterClose(step)
				if len(r.Viol) > 0 {
					return r
				}
				if db = open(); db == nil {
					return r
				}
			}
			live := len(db.VerifTables())
			fds, maps, det := entriesUnder(dir)
			r.Evals++
			if fds+maps > maxSeen {
				maxSeen = fds + maps
			}
			if fds+maps > 2*live+4 {
				viol("cycle %d (%c): %d descriptors + %d mappings with %d live tables exceeds 2*live+4: %v", step, ch, fds, maps, live, det)
				db.Close()
				return r
			}
		}
	}
	if err := db.Close(); err != nil {
		viol("final Close: %v", err)
	}
	afterClose(step + 1)
	if err := os.RemoveAll(dir); err != nil {
		viol("directory not removable after Close: %v", err)
	}
	r.Traces++
	if len(cs.Word) >= 2 {
		r.Key = core.HashKey("db", fmt.Sprint(cs))
	}
	r.Outcome = fmt.Sprintf("db max_entries=%d ok=%v", maxSeen, len(r.Viol) == 0)
	if cs.Word == "PPCR" && !cs.Ticker && cs.Thresh == 1 {
		r.Sample = string(core.J(map[string]any{"kind": "db", "word": cs.Word, "repeat": cs.Repeat, "cycles": step, "max_entries_seen": maxSeen}))
	}
	return r
}

func (c c19) readerCase(w *core.WCtx, cs c19Case) core.Result {
	var r core.Result
	dir := w.Dir()
	viol := func(f string, a ...any) {
		if len(r.Viol) < 5 {
			r.Viol = append(r.Viol, core.Violation{Desc: fmt.Sprintf("%s word %q: %s", cs.Subj, cs.Word, fmt.Sprintf(f, a...))})
		}
	}
	defer func() {
		if p := recover(); p != nil {
			viol("panic: %v", p)
		}
	}()
	t1 := filepath.Join(dir, "t1")
	t2 := filepath.Join(dir, "t2")
	mustMkdir(t1)
	mustMkdir(t2)
	tab1 := []kv{{[]byte("a"), []byte("1")}, {[]byte("b"), []byte("2")}, {[]byte("c"), []byte("3")}}
	tab2 := []kv{{[]byte("b"), nil}, {[]byte("d"), []byte("4")}}
	if err := writeTable(t1, tab1, tblW{Writer: "stream", DataComp: 2, WBuf: 4096}); err != nil {
		viol("setup: %v", err)
		return r
	}
	if err := writeTable(t2, tab2, tblW{Writer: "stream", DataComp: 2, WBuf: 4096}); err != nil {
		viol("setup: %v", err)
		return r
	}
	rio := filepath.Join(dir, "f.rio")
	{
		wr, _ := recordio.NewFileWriter(recordio.Path(rio), recordio.BufferSizeBytes(4096))
		wr.Open()
		for i := 0; i < 3; i++ {
			wr.Write([]byte{byte('a' + i)})
		}
		wr.Close()
	}
	walDir := filepath.Join(dir, "wal")
	mustMkdir(walDir)
	wopts, _ := walOptions(walDir, 24, 4096)
	{
		l, err := wal.NewWriteAheadLog(wopts)
		if err != nil {
			viol("setup wal: %v", err)
			return r
		}
		for i := 0; i < 4; i++ {
			l.Append([]byte("0123456789"))
		}
		l.Close()
	}
	if f, m, det := entriesUnder(dir); f+m != 0 {
		viol("setup itself left %d entries open: %v", f+m, det)
		return r
	}
	var closeFn func() error
	var act func(ch rune) error
	kLo, kMid, kHi := []byte("a"), []byte("b"), []byte("c")
	tableActs := func(rd sstables.SSTableReaderI) func(ch rune) error {
		return func(ch rune) error {
			var it sstables.SSTableIteratorI
			var err error
			switch ch {
			case 'S', 'A':
				it, err = rd.Scan()
			case 'R':
				it, err = rd.ScanRange(kLo, kHi)
			case 'T':
				it, err = rd.ScanStartingAt(kMid)
			case 'G':
				_, err = rd.Get(kMid)
				return err
			}
			if err != nil {
				return err
			}
			if ch == 'A' || ch == 'T' {
				_, _, err = it.Next()
				return err
			}
			_, err = drain(it, 20)
			return err
		}
	}
	noop := func(ch rune) error { return nil }
	short := filepath.Join(dir, "short.rio") // 3 bytes: shorter than the 8-byte file header
	os.WriteFile(short, []byte{4, 0, 0}, 0o644)
	switch {
	case cs.Subj == "rio-seq-unopened" || cs.Subj == "rio-seq-openfail":
		path := rio
		if cs.Subj == "rio-seq-openfail" {
			path = short
		}
		rd, err := recordio.NewFileReader(recordio.ReaderPath(path), recordio.ReaderBufferSizeBytes(4096))
		if err != nil {
			viol("constructor: %v", err)
			return r
		}
		if cs.Subj == "rio-seq-openfail" {
			if err := rd.Open(); err == nil {
				viol("Open of a 3-byte file succeeded")
			}
		}
		closeFn, act = func() error { rd.Close(); return nil }, noop
	case cs.Subj == "rio-mmap-unopened" || cs.Subj == "rio-mmap-openfail":
		path := rio
		if cs.Subj == "rio-mmap-openfail" {
			path = short
		}
		rd, err := recordio.NewMemoryMappedReaderWithPath(path)
		if err != nil {
			viol("constructor: %v", err)
			return r
		}
		if cs.Subj == "rio-mmap-openfail" {
			if err := rd.Open(); err == nil {
				viol("Open of a 3-byte file succeeded")
			}
		}
		closeFn, act = func() error { rd.Close(); return nil }, noop
	case cs.Subj == "rio-writer-unopened":
		wr, err := recordio.NewFileWriter(recordio.Path(filepath.Join(dir, "w2.rio")), recordio.BufferSizeBytes(16))
		if err != nil {
			viol("constructor: %v", err)
			return r
		}
		closeFn, act = func() error { wr.Close(); return nil }, noop
	case strings.HasPrefix(cs.Subj, "sstable-openfail-"):
		// the table loses the tail of its index (or data) file: the constructor must fail and leave nothing open
		victim := sstables.IndexFileName
		loader := strings.TrimPrefix(cs.Subj, "sstable-openfail-")
		if loader == "data" {
			victim, loader = sstables.DataFileName, "slice"
		}
		b := readAll(filepath.Join(t1, victim))
		os.WriteFile(filepath.Join(t1, victim), b[:len(b)-3], 0o644)
		rd, err := openTable(t1, tblR{Loader: loader, RBuf: 4096})
		if err == nil {
			// (the disk index reads lazily and may open fine: then it is an ordinary reader)
			closeFn, act = rd.Close, noop
		} else {
			closeFn, act = func() error { return nil }, noop
		}
	case cs.Subj == "wal-replay-openfail":
		// a WAL directory whose only file is shorter than a header
		wd := filepath.Join(dir, "wal2")
		mustMkdir(wd)
		os.WriteFile(filepath.Join(wd, "000000.wal"), []byte{4, 0, 0}, 0o644)
		o2, _ := walOptions(wd, 24, 4096)
		rep, err := wal.NewReplayer(o2)
		if err == nil {
			rep.Replay(func(record []byte) error { return nil })
		}
		closeFn, act = func() error { return nil }, noop
	case strings.HasPrefix(cs.Subj, "legacy-"):
		var fi int
		var loader string
		fmt.Sscanf(strings.Replace(cs.Subj, "-", " ", -1), "legacy %d %s", &fi, &loader)
		fx := legacyTables()[fi]
		tl := filepath.Join(dir, "tleg")
		mustMkdir(tl)
		ents, _ := os.ReadDir(fx.Dir())
		for _, e := range ents {
			data, err := os.ReadFile(filepath.Join(fx.Dir(), e.Name()))
			if err != nil || os.WriteFile(filepath.Join(tl, e.Name()), data, 0o644) != nil {
				viol("setup: cannot copy fixture file %s", e.Name())
				return r
			}
		}
		kLo, kMid, kHi = fx.KVs[0].K, fx.KVs[len(fx.KVs)/2].K, fx.KVs[len(fx.KVs)-1].K
		rd, err := openTable(tl, tblR{Loader: loader, RBuf: 4096})
		if err != nil {
			viol("open: %v", err)
			return r
		}
		closeFn, act = rd.Close, tableActs(rd)
	case strings.HasPrefix(cs.Subj, "sstable-"):
		rd, err := openTable(t1, tblR{Loader: strings.TrimPrefix(cs.Subj, "sstable-"), RBuf: 4096})
		if err != nil {
			viol("open: %v", err)
			return r
		}
		closeFn, act = rd.Close, tableActs(rd)
	case cs.Subj == "super":
		r1, err1 := openTable(t1, tblR{RBuf: 4096})
		r2, err2 := openTable(t2, tblR{RBuf: 4096})
		if err1 != nil || err2 != nil {
			viol("open: %v %v", err1, err2)
			return r
		}
		s := sstables.NewSuperSSTableReader([]sstables.SSTableReaderI{r1, r2}, skiplist.BytesComparator{})
		closeFn, act = s.Close, tableActs(s)
	case cs.Subj == "rio-seq":
		rd, err := openSeq(rio, 4096)
		if err != nil {
			viol("open: %v", err)
			return r
		}
		closeFn = rd.Close
		act = func(ch rune) error {
			switch ch {
			case 'S', 'R':
				for {
					if _, err := rd.ReadNext(); err != nil {
						return nil
					}
				}
			case 'A', 'G':
				rd.ReadNext()
			case 'T':
				rd.SkipNext()
			}
			return nil
		}
	case cs.Subj == "rio-mmap":
		rd, err := recordio.NewMemoryMappedReaderWithPath(rio)
		if err != nil {
			viol("open: %v", err)
			return r
		}
		if err := rd.Open(); err != nil {
			viol("open: %v", err)
			return r
		}
		closeFn = rd.Close
		act = func(ch rune) error {
			switch ch {
			case 'S', 'R':
				off := uint64(0)
				for {
					o, _, err := rd.SeekNext(off)
					if err != nil {
						return nil
					}
					off = o + 1
				}
			case 'A', 'G':
				_, err := rd.ReadNextAt(8)
				return err
			case 'T':
				_, _, err := rd.SeekNext(9)
				return err
			}
			return nil
		}
	case cs.Subj == "rio-writer":
		wr, err := recordio.NewFileWriter(recordio.Path(filepath.Join(dir, "w.rio")), recordio.BufferSizeBytes(16))
		if err != nil {
			viol("open: %v", err)
			return r
		}
		if err := wr.Open(); err != nil {
			viol("open: %v", err)
			return r
		}
		closeFn = wr.Close
		var offs []uint64
		act = func(ch rune) error {
			switch ch {
			case 'S', 'R', 'G':
				o, err := wr.Write([]byte("0123456789abcdefghij"))
				offs = append(offs, o)
				return err
			case 'A':
				_, err := wr.WriteSync([]byte("x"))
				return err
			case 'T':
				if len(offs) > 0 {
					return wr.Seek(offs[0])
				}
			}
			return nil
		}
	case cs.Subj == "wal-replay":
		rep, err := wal.NewReplayer(wopts)
		if err != nil {
			viol("open: %v", err)
			return r
		}
		closeFn = func() error { return nil } // a replayer has no Close: every Replay must release what it opened
		act = func(ch rune) error {
			n := 0
			err := rep.Replay(func([]byte) error {
				n++
				if (ch == 'A' || ch == 'T') && n == 2 {
					return fmt.Errorf("callback abandons the replay")
				}
				return nil
			})
			if ch == 'A' || ch == 'T' {
				return nil
			}
			return err
		}
	case cs.Subj == "wal-append":
		wd := filepath.Join(dir, "wal2")
		mustMkdir(wd)
		o2, _ := walOptions(wd, 24, 4096)
		l, err := wal.NewWriteAheadLog(o2)
		if err != nil {
			viol("open: %v", err)
			return r
		}
		closeFn = l.Close
		act = func(ch rune) error {
			switch ch {
			case 'S', 'G':
				return l.Append([]byte("0123456789"))
			case 'A':
				return l.AppendSync([]byte("0123456789"))
			case 'R', 'T':
				_, err := l.Rotate()
				return err
			}
			return nil
		}
	default:
		panic("subject " + cs.Subj)
	}
	for i, ch := range cs.Word {
		r.Trans++
		if err := act(ch); err != nil {
			if strings.HasPrefix(cs.Subj, "legacy-") && strings.Contains(err.Error(), "unsupported on files with version lower than v2") {
				// the on-disk index needs SeekNext, which is documented as unsupported for the oldest record format:
				// the call is refused, which is fine here - what was opened must still be released by Close
				continue
			}
			viol("step %d (%c) failed: %v", i, ch, err)
		}
	}
	if err := closeFn(); err != nil {
		viol("Close failed: %v", err)
	}
	r.Evals++
	if f, m, det := entriesUnder(dir); f+m != 0 {
		viol("after Close %d descriptors and %d mappings remain: %v", f, m, det)
	}
	r.Traces++
	if len(cs.Word) >= 2 {
		r.Key = core.HashKey(cs.Subj, cs.Word)
	}
	r.Outcome = fmt.Sprintf("%s ok=%v", cs.Subj, len(r.Viol) == 0)
	return r
}
