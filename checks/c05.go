package checks

import (
	"encoding/json"
	"errors"
	"fmt"
	"os"
	"sort"
	"strings"
	"time"

	"github.com/thomasjungblut/go-sstables/simpledb"
	"verif/internal/core"
	"verif/shim/vsched"
	"verif/shim/vtime"
)

// C05: concurrent Get/Put/Delete are linearizable while flushes and compactions run.
// C18 (a) runs the same scenarios in the race-sighted build.

type c05 struct{}

func init()            { core.Register(c05{}) }
func (c05) ID() string { return "C05" }

type c05Case struct {
	Sched schedCase `json:"sched"`
}

// one client operation
type cop struct {
	Op string // get put del compact
	K  string
	V  string
}

type hop struct {
	Thread    int
	Op        cop
	Call, Ret int64
	Res       string // get: value or "-" ; put/del: "ok" ; errors: "ERR:..."
}

type dbScenario struct {
	quickBound, thoroughBound int

	name    string
	mem     uint64
	setup   []cop   // sequential prefix (not explored); "rot" = rotate + barrier
	threads [][]cop // client threads
	thresh  int
	maxSize uint64 // CompactionMaxSizeBytes (0 = library default)
	// bg: the real background compaction goroutine runs (its ticker is driven by the harness: op "tick"); a client may
	// "close" the database; after the run no descriptor or mapping below the directory may remain (C19)
	bg bool
}

func (d dbScenario) Name() string { return d.name }
func (d dbScenario) Bound(tier string) int {
	if tier == "thorough" {
		return d.thoroughBound
	}
	return d.quickBound
}

var bigVal = strings.Repeat("B", 60)
var hugeVal = string(incompressible(300, 40)) // a table holding it exceeds the 200-byte compaction size limit of S7

func c05Scenarios() []dbScenario {
	return []dbScenario{
		{name: "S1-rotate-under-read", mem: 50, thresh: 10, quickBound: 2, thoroughBound: 3,
			setup:   []cop{{"put", "a", "1"}},
			threads: [][]cop{{{"put", "b", bigVal}}, {{"get", "a", ""}, {"get", "b", ""}}}},
		{name: "S2-two-rotating-writers", mem: 50, thresh: 10, quickBound: 2, thoroughBound: 3,
			setup:   []cop{{"put", "a", "1"}},
			threads: [][]cop{{{"put", "a", bigVal}}, {{"put", "b", bigVal}}}},
		{name: "S2r-two-rotating-writers-and-reader", mem: 50, thresh: 10, quickBound: -1, thoroughBound: 2,
			setup:   []cop{{"put", "a", "1"}},
			threads: [][]cop{{{"put", "a", bigVal}}, {{"put", "b", bigVal}}, {{"get", "a", ""}}}},
		{name: "S3-delete-rotate-under-read", mem: 50, thresh: 10, quickBound: 2, thoroughBound: 3,
			setup:   []cop{{"put", "a", "1"}, {"rot", "", ""}},
			threads: [][]cop{{{"del", "a", ""}, {"put", "c", bigVal}}, {{"get", "a", ""}, {"get", "a", ""}}}},
		{name: "S4-compaction-under-read-and-flush", mem: 50, thresh: 1, quickBound: 1, thoroughBound: 2,
			setup:   []cop{{"put", "a", "1"}, {"put", "b", "1"}, {"rot", "", ""}, {"put", "a", "2"}, {"del", "b", ""}, {"rot", "", ""}},
			threads: [][]cop{{{"compact", "", ""}}, {{"get", "a", ""}, {"get", "b", ""}}, {{"put", "b", bigVal}}}},
		// a key that lives in the write memstore is overwritten (same length, shorter, longer) while it is being read
		{name: "S6-overwrite-in-memstore-under-read", mem: 1 << 20, thresh: 10, quickBound: 2, thoroughBound: 3,
			setup:   []cop{{"put", "a", "11"}},
			threads: [][]cop{{{"put", "a", "22"}, {"put", "a", "3"}, {"put", "a", bigVal}}, {{"get", "a", ""}, {"get", "a", ""}}}},
		// a compaction cycle that leaves the oldest (large) table out while the deleted key is read
		{name: "S7-compaction-excluding-oldest-under-read", mem: 1 << 20, thresh: 1, maxSize: 200, quickBound: 1, thoroughBound: 2,
			setup:   []cop{{"put", "a", hugeVal}, {"rot", "", ""}, {"del", "a", ""}, {"rot", "", ""}, {"put", "b", "1"}, {"rot", "", ""}},
			threads: [][]cop{{{"compact", "", ""}}, {{"get", "a", ""}, {"get", "b", ""}, {"get", "a", ""}}}},
		// one cycle over 18 tables (more than any plausible fan-in) while the key deleted in the second table is read
		{name: "S9-compaction-of-18-tables-under-read", mem: 1 << 20, thresh: 1, quickBound: 1, thoroughBound: 1,
			setup:   c05ManyTables(14),
			threads: [][]cop{{{"compact", "", ""}}, {{"get", "a", ""}, {"get", "b", ""}}}},
		{name: "S5-compaction-drops-tombstone-under-write", mem: 1 << 20, thresh: 1, quickBound: 2, thoroughBound: 3,
			setup:   []cop{{"put", "a", "1"}, {"rot", "", ""}, {"del", "a", ""}, {"rot", "", ""}},
			threads: [][]cop{{{"compact", "", ""}}, {{"put", "a", "5"}, {"get", "a", ""}}}},
	}
}

// c05FineScenarios run in the build in which every statement of the table reader, its indexes and the memory-mapped
// record reader is a scheduling point: two clients reading keys that live in the same flushed table.
func c05FineScenarios() []dbScenario {
	return []dbScenario{
		{name: "S8-concurrent-reads-of-one-table", mem: 1 << 20, thresh: 10, quickBound: 1, thoroughBound: 2,
			setup:   []cop{{"put", "a", "1"}, {"put", "b", bigVal}, {"rot", "", ""}},
			threads: [][]cop{{{"get", "a", ""}, {"get", "b", ""}}, {{"get", "b", ""}, {"get", "a", ""}}}},
	}
}

// c19BgScenarios: Close against the running background compaction goroutine (and the flusher).
func c19BgScenarios() []dbScenario {
	two := []cop{{"put", "a", "1"}, {"rot", "", ""}, {"put", "b", "1"}, {"rot", "", ""}}
	return []dbScenario{
		{name: "B1-close-vs-background-compaction", mem: 1 << 20, thresh: 1, bg: true, quickBound: 1, thoroughBound: 3,
			setup: two, threads: [][]cop{{{"tick", "", ""}}, {{"close", "", ""}}}},
		{name: "B2-close-vs-compaction-and-flush", mem: 50, thresh: 1, bg: true, quickBound: 1, thoroughBound: 2,
			setup: two, threads: [][]cop{{{"tick", "", ""}}, {{"put", "c", bigVal}, {"close", "", ""}}}},
		{name: "B3-close-vs-two-ticks", mem: 1 << 20, thresh: 1, bg: true, quickBound: 1, thoroughBound: 2,
			setup: two, threads: [][]cop{{{"tick", "", ""}, {"tick", "", ""}}, {{"close", "", ""}}}},
		{name: "B4-compaction-then-close-with-three-tables", mem: 1 << 20, thresh: 1, bg: true, quickBound: 1, thoroughBound: 2,
			setup: append(append([]cop{}, two...), cop{"del", "a", ""}, cop{"rot", "", ""}), threads: [][]cop{{{"tick", "", ""}}, {{"get", "a", ""}, {"close", "", ""}}}},
	}
}

// c05ManyTables: a=1 in the oldest table, two filler tables, the deletion of a in the fourth, then more filler tables.
func c05ManyTables(filler int) []cop {
	ops := []cop{{"put", "a", "1"}, {"rot", "", ""}, {"put", "b", "x"}, {"rot", "", ""}, {"put", "b", "y"}, {"rot", "", ""}, {"del", "a", ""}, {"rot", "", ""}}
	for i := 0; i < filler; i++ {
		ops = append(ops, cop{"put", "b", fmt.Sprint(i % 10)}, cop{"rot", "", ""})
	}
	return ops
}

func c05ScenarioByName(n string) schedScenario {
	for _, s := range c05FineScenarios() {
		if s.name == n {
			return s
		}
	}
	for _, s := range c19BgScenarios() {
		if s.name == n {
			return s
		}
	}
	for _, s := range c05Scenarios() {
		if s.name == n {
			return s
		}
	}
	return nil
}

func (c c05) Run(ctx *core.Ctx) error {
	var scns []schedScenario
	for _, s := range c05Scenarios() {
		if s.Bound(ctx.Tier) >= 0 {
			scns = append(scns, s)
		}
	}
	ctx.Ev.Rule = "8 scenarios of 2-3 client goroutines (1-2 operations each on colliding keys) plus the real flusher goroutine and, in two scenarios, a goroutine running one compaction cycle; every interleaving with at most N preemptions is executed on the real SimpleDB under a cooperative scheduler injected by source rewriting (scheduling points: every lock, channel and atomic operation and every statement touching the memstore pair / table list); each execution's history of call/return steps and results (plus a final sequential read of all keys) must be linearizable against a map; deadlock, panic and any API error are violations. distinct = (scenario, observed history class); non-trivial = executions with at least one preemption"
	ctx.Ev.Bounds["scenarios"] = len(scns)
	ctx.Ev.Assume = []string{"lock operations are atomic at their scheduling point (a parked thread has not called Lock yet), which is exact for the non-reentrant locking in simpledb",
		"the compaction ticker goroutine is not part of the scenarios; one cycle runs in a harness goroutine through the tag-guarded helper"}
	ctx.CaseTimeout = 5 * time.Minute
	runSchedCheck(ctx, scns, func(sc schedCase) json.RawMessage { return core.J(c05Case{Sched: sc}) })
	// reader-level interleavings of concurrent Gets (finer instrumented build)
	ctx.WorkerBin = binPath("vschedfine")
	var fine []schedScenario
	for _, s := range c05FineScenarios() {
		fine = append(fine, s)
	}
	ctx.Ev.Bounds["fine_scenarios"] = "S8: two clients x two Gets of keys in one flushed table, every statement of the table reader / index / mmap reader is a scheduling point"
	runSchedCheck(ctx, fine, func(sc schedCase) json.RawMessage { return core.J(c05Case{Sched: sc}) })
	return nil
}

func (c c05) Case(w *core.WCtx, payload json.RawMessage) core.Result {
	var cs c05Case
	json.Unmarshal(payload, &cs)
	scn := c05ScenarioByName(cs.Sched.Scenario)
	if scn == nil {
		return core.Result{Viol: []core.Violation{{Desc: "unknown scenario " + cs.Sched.Scenario}}}
	}
	r := schedWorker(w, scn, cs.Sched)
	for i := range r.Viol {
		var sc schedCase
		if json.Unmarshal(r.Viol[i].Case, &sc) == nil {
			r.Viol[i].Case = core.J(c05Case{Sched: sc})
		}
	}
	return r
}

// Exec runs the scenario once under the scheduler.
func (d dbScenario) Exec(w *core.WCtx, prefix []int) (x schedExec) {
	quietLogs()
	dir := w.Dir()
	defer os.RemoveAll(dir)
	var hist []hop
	var problems []string
	perThread := make([][]hop, len(d.threads))
	// harness data crosses goroutines through a real channel (see c18.go): plain shared variables of the harness would be
	// reported by the race detector in the race-sighted build, whose scheduler hand-offs create no happens-before edges
	type resMsg struct {
		ti   int
		hops []hop
	}
	resCh := make(chan resMsg, len(d.threads))
	closedCh := make(chan bool, len(d.threads))
	vtime.ResetAll()
	s := vsched.Run(prefix, func() {
		vsched.Quiet(true)
		cmpOpt := simpledb.DisableCompactions()
		if d.bg {
			cmpOpt = simpledb.CompactionRunInterval(time.Hour) // the shim's ticker only fires when the harness says so
		}
		opts := []simpledb.ExtraOption{cmpOpt, simpledb.MemstoreSizeBytes(d.mem),
			simpledb.CompactionFileThreshold(d.thresh), simpledb.WriteBufferSizeBytes(4096), simpledb.ReadBufferSizeBytes(4096)}
		if d.maxSize > 0 {
			opts = append(opts, simpledb.CompactionMaxSizeBytes(d.maxSize))
		}
		db, err := simpledb.NewSimpleDB(dir, opts...)
		if err == nil {
			err = db.Open()
		}
		if err != nil {
			problems = append(problems, "setup: open failed: "+err.Error())
			return
		}
		for _, o := range d.setup {
			var err error
			switch o.Op {
			case "put":
				err = db.Put(o.K, o.V)
			case "del":
				err = db.Delete(o.K)
			case "rot":
				err = db.VerifRotateAndWait()
			}
			if err != nil {
				problems = append(problems, fmt.Sprintf("setup: %v failed: %v", o, err))
			}
		}
		db.VerifFlushBarrier()
		vsched.Quiet(false)
		for ti := range d.threads {
			ti := ti
			ops := d.threads[ti]
			vsched.GoClient(fmt.Sprintf("client%d", ti), func() {
				var mine []hop
				defer func() { resCh <- resMsg{ti, mine} }()
				for _, o := range ops {
					h := hop{Thread: ti, Op: o, Call: vsched.Now()}
					switch o.Op {
					case "get":
						v, err := db.Get(o.K)
						switch {
						case errors.Is(err, simpledb.ErrNotFound):
							h.Res = "-"
						case err != nil:
							h.Res = "ERR:" + err.Error()
						default:
							h.Res = v
						}
					case "put":
						if err := db.Put(o.K, o.V); err != nil {
							h.Res = "ERR:" + err.Error()
						} else {
							h.Res = "ok"
						}
					case "del":
						if err := db.Delete(o.K); err != nil {
							h.Res = "ERR:" + err.Error()
						} else {
							h.Res = "ok"
						}
					case "compact":
						if _, _, err := db.VerifCompactOnce(); err != nil {
							h.Res = "ERR:" + err.Error()
						} else {
							h.Res = "ok"
						}
					case "tick":
						vtime.Fire()
						h.Res = "ok"
					case "close":
						if err := db.Close(); err != nil {
							h.Res = "ERR:" + err.Error()
						} else {
							h.Res = "ok"
						}
						closedCh <- true
					}
					h.Ret = vsched.Now()
					mine = append(mine, h)
				}
			})
		}
		vsched.JoinClients()
		vsched.Quiet(true)
		for range d.threads {
			m := <-resCh
			perThread[m.ti] = m.hops
		}
		select {
		case <-closedCh:
			return // a client closed the database: nothing to read any more
		default:
		}
		// final sequential reads: they follow every client operation in real time
		for _, k := range []string{"a", "b", "c"} {
			h := hop{Thread: -1, Op: cop{"get", k, ""}, Call: vsched.Now()}
			v, err := db.Get(k)
			switch {
			case errors.Is(err, simpledb.ErrNotFound):
				h.Res = "-"
			case err != nil:
				h.Res = "ERR:" + err.Error()
			default:
				h.Res = v
			}
			h.Ret = vsched.Now()
			hist = append(hist, h)
		}
		if err := db.Close(); err != nil {
			problems = append(problems, "Close failed: "+err.Error())
		}
	})
	for _, t := range perThread {
		hist = append(hist, t...)
	}
	if d.bg {
		// everything is closed and every goroutine the database started has ended (a stuck one is reported as a
		// deadlock by the scheduler): nothing below the directory may still be open or mapped
		if fds, maps, det := entriesUnder(dir); fds+maps != 0 {
			problems = append(problems, fmt.Sprintf("after Close returned %d descriptors and %d mappings below the database directory remain: %v", fds, maps, det))
		}
	}
	x.Choices = append([]vsched.Choice{}, s.Trace[:s.NTrace]...)
	x.Ops = len(hist)
	// initial state of the map = sequential setup
	init := map[string]string{}
	for _, o := range d.setup {
		switch o.Op {
		case "put":
			init[o.K] = o.V
		case "del":
			delete(init, o.K)
		}
	}
	for _, h := range hist {
		if strings.HasPrefix(h.Res, "ERR:") {
			problems = append(problems, fmt.Sprintf("%v returned an error: %s", h.Op, h.Res))
		}
	}
	if ok, why := linearizable(hist, init); !ok {
		problems = append(problems, "history is not linearizable: "+why)
	}
	x.Problems = problems
	x.Outcome = historyClass(hist)
	return x
}

func short(v string) string {
	if len(v) > 3 {
		return "B"
	}
	return v
}

func historyClass(hist []hop) string {
	hs := append([]hop{}, hist...)
	sort.Slice(hs, func(i, j int) bool {
		if hs[i].Thread != hs[j].Thread {
			return hs[i].Thread < hs[j].Thread
		}
		return hs[i].Call < hs[j].Call
	})
	var b strings.Builder
	for _, h := range hs {
		if h.Op.Op == "get" {
			fmt.Fprintf(&b, "t%d:get(%s)=%s ", h.Thread, h.Op.K, short(h.Res))
		}
	}
	return b.String()
}

// linearizable: brute force over all total orders that respect real time (call/return steps).
func linearizable(hist []hop, init map[string]string) (bool, string) {
	var ops []hop
	for _, h := range hist {
		if h.Op.Op != "compact" && h.Op.Op != "tick" && h.Op.Op != "close" {
			ops = append(ops, h)
		}
	}
	n := len(ops)
	used := make([]bool, n)
	state := map[string]string{}
	for k, v := range init {
		state[k] = v
	}
	var rec func(done int) bool
	rec = func(done int) bool {
		if done == n {
			return true
		}
		for i := 0; i < n; i++ {
			if used[i] {
				continue
			}
			// i may be next only if no unused op returned before i was called
			ok := true
			for j := 0; j < n; j++ {
				if !used[j] && j != i && ops[j].Ret < ops[i].Call {
					ok = false
					break
				}
			}
			if !ok {
				continue
			}
			o := ops[i]
			prev, had := state[o.Op.K]
			switch o.Op.Op {
			case "get":
				want := "-"
				if had {
					want = prev
				}
				if o.Res != want {
					continue
				}
			case "put":
				state[o.Op.K] = o.Op.V
			case "del":
				delete(state, o.Op.K)
			}
			used[i] = true
			if rec(done + 1) {
				return true
			}
			used[i] = false
			if o.Op.Op != "get" {
				if had {
					state[o.Op.K] = prev
				} else {
					delete(state, o.Op.K)
				}
			}
		}
		return false
	}
	if rec(0) {
		return true, ""
	}
	var b strings.Builder
	sort.Slice(ops, func(i, j int) bool { return ops[i].Call < ops[j].Call })
	for _, o := range ops {
		fmt.Fprintf(&b, "[t%d %s(%s%s)=%s @%d-%d] ", o.Thread, o.Op.Op, o.Op.K, map[bool]string{true: "," + short(o.Op.V), false: ""}[o.Op.Op == "put"], short(o.Res), o.Call, o.Ret)
	}
	return false, b.String()
}
