package checks

import (
	"encoding/json"
	"errors"
	"fmt"
	"io"
	"sort"
	"strings"

	"github.com/thomasjungblut/go-sstables/recordio"
	rProto "github.com/thomasjungblut/go-sstables/recordio/proto"
	"github.com/thomasjungblut/go-sstables/skiplist"
	"github.com/thomasjungblut/go-sstables/sstables"
	"google.golang.org/protobuf/proto"
	"verif/internal/core"
)

// C11 (component half): I/O failures during merge and compaction are reported, never absorbed.
// The system half (failing write system calls during flush/compaction) lives in the E3 engine.

type c11 struct{}

func init()            { core.Register(c11{}) }
func (c11) ID() string { return "C11" }

type c11Case struct {
	K       int      `json:"k"`
	First   int      `json:"first"`
	Only    []int    `json:"only,omitempty"`
	OnlyF   []c11Flt `json:"only_faults,omitempty"`
	OnlyO   string   `json:"only_op,omitempty"`
	Sys     *c11Sys  `json:"sys,omitempty"`
	WF      *c11WF   `json:"wf,omitempty"`
	NoPairs bool     `json:"no_pairs,omitempty"`
}

// fault: Kind "it" = input iterator In fails at its Pos-th Next call (Perm: keeps failing, fuse 8, then Done;
// otherwise fails once and then continues); Kind "w" = output writer fails at its Pos-th WriteNext.
type c11Flt struct {
	Kind string `json:"kind"`
	In   int    `json:"in,omitempty"`
	Pos  int    `json:"pos"`
	Perm bool   `json:"perm,omitempty"`
	// Err: identity of the injected iterator error: 0 an opaque error, 1 io.EOF itself (what a reader returns when a
	// data file ends before its index does), 2 an error wrapping io.EOF, 3 io.ErrUnexpectedEOF
	Err int `json:"err,omitempty"`
}

var errC11 = errors.New("injected failure")

func c11Err(id int) error {
	switch id {
	case 1:
		return io.EOF
	case 2:
		return fmt.Errorf("injected read failure: %w", io.EOF)
	case 3:
		return io.ErrUnexpectedEOF
	}
	return errC11
}

type memIt struct {
	recs   []kv
	pos    int
	calls  int
	failAt int
	perm   bool
	fuse   int
	errID  int
	budget *int
}

func (m *memIt) Next() ([]byte, []byte, error) {
	*m.budget--
	if *m.budget < 0 {
		panic("call budget exhausted: the merge does not terminate")
	}
	c := m.calls
	m.calls++
	if m.failAt >= 0 {
		if m.perm && c >= m.failAt && m.fuse > 0 {
			m.fuse--
			return nil, nil, c11Err(m.errID)
		}
		if !m.perm && c == m.failAt {
			return nil, nil, c11Err(m.errID)
		}
	}
	if m.pos >= len(m.recs) {
		return nil, nil, sstables.Done
	}
	e := m.recs[m.pos]
	m.pos++
	return e.K, e.V, nil
}

type memWriter struct {
	out    []kv
	calls  int
	failAt int
}

func (w *memWriter) Open() error { return nil }
func (w *memWriter) WriteNext(k, v []byte) error {
	c := w.calls
	w.calls++
	if c == w.failAt {
		return errC11
	}
	w.out = append(w.out, kv{append([]byte{}, k...), cloneVal(v)})
	return nil
}
func (w *memWriter) Close() error { return nil }

func (c c11) Run(ctx *core.Ctx) error {
	var cases []json.RawMessage
	maxK := 3
	for k := 1; k <= maxK; k++ {
		for f := 0; f < 27; f++ {
			cases = append(cases, core.J(c11Case{K: k, First: f, NoPairs: k == 3 && ctx.Tier != "thorough"}))
		}
	}
	ctx.Ev.Level = "fault_enumeration"
	ctx.Ev.Rule = "every list of k tables over {\"\",a,b} x {absent,value,tombstone} (as C08) x operation in {Merge (key-disjoint lists), MergeCompact with each exported reduction}; faults: every input iterator failing at every Next position (0..len, transient and permanent; single faults with four error identities: opaque, io.EOF, wrapped io.EOF, io.ErrUnexpectedEOF) and the output writer failing at every WriteNext position - all single faults and all pairs; oracle: the operation returns an error, or its recorded output equals the fault-free output. distinct = (list, operation, fault set); non-trivial = every case (each injects at least one fault)"
	ctx.Ev.Bounds["max_tables"] = maxK
	ctx.Ev.Bounds["fault_pairs_up_to_tables"] = map[bool]int{false: 2, true: 3}[ctx.Tier == "thorough"]
	ctx.Ev.Assume = []string{"component half only: faults are injected at the iterator / stream-writer interfaces the merger takes; flush and compaction at system level are covered by the syscall fault injector"}
	// the real stream writer with failing underlying writers, including failures that only surface in Close
	// (the final buffer flush): at least one call must return an error, or the table must be complete
	for n := 1; n <= 3; n++ {
		for _, site := range []string{"dataWrite", "indexWrite", "dataClose", "indexClose"} {
			for at := 0; at < n; at++ {
				if strings.HasSuffix(site, "Close") && at > 0 {
					continue
				}
				for _, real := range []bool{true, false} {
					cases = append(cases, core.J(c11Case{WF: &c11WF{N: n, Site: site, At: at, RealClose: real}}))
				}
			}
		}
	}
	rs := ctx.Pmap(cases)
	ctx.Fold(rs, cases)
	for i, r := range rs {
		if r.Died {
			ctx.Report(core.Violation{Desc: "worker died: " + r.DiedMsg, Case: cases[i]})
		}
	}
	return c11SystemHalf(ctx)
}

func (c c11) Case(w *core.WCtx, payload json.RawMessage) core.Result {
	var cs c11Case
	json.Unmarshal(payload, &cs)
	if cs.Sys != nil {
		return c.sysCase(w, cs.Sys)
	}
	if cs.WF != nil {
		return c.wfCase(w, cs.WF)
	}
	var r core.Result
	var lists [][]int
	if cs.Only != nil {
		lists = [][]int{cs.Only}
	} else {
		codes := make([]int, cs.K)
		codes[0] = cs.First
		var rec func(i int)
		rec = func(i int) {
			if i == cs.K {
				lists = append(lists, append([]int{}, codes...))
				return
			}
			for t := 0; t < 27; t++ {
				codes[i] = t
				rec(i + 1)
			}
		}
		rec(1)
	}
	for _, list := range lists {
		if len(r.Viol) >= 8 {
			break
		}
		c.checkList(list, cs, &r)
	}
	r.Outcome = fmt.Sprintf("k=%d ok=%v", cs.K, len(r.Viol) == 0)
	if cs.K == 2 && cs.First == 13 {
		r.Sample = string(core.J(map[string]any{"oldest": kvsStr(c08Table(13, 0, 3)), "lists_in_case": len(lists), "fault_example": []c11Flt{{Kind: "it", In: 0, Pos: 1}, {Kind: "w", Pos: 0}}}))
	}
	return r
}

func (c c11) checkList(list []int, cs c11Case, r *core.Result) {
	var inputs [][]kv
	shared := false
	seen := map[string]bool{}
	for s, code := range list {
		t := c08Table(code, s, 3)
		for _, e := range t {
			if seen[string(e.K)] {
				shared = true
			}
			seen[string(e.K)] = true
		}
		inputs = append(inputs, t)
	}
	type op struct {
		name string
		run  func(its []sstables.SSTableMergeIteratorContext, w sstables.SSTableStreamWriterI) error
	}
	m := sstables.NewSSTableMerger(skiplist.BytesComparator{})
	ops := []op{
		{"MergeCompact(LatestWins)", func(its []sstables.SSTableMergeIteratorContext, w sstables.SSTableStreamWriterI) error {
			return m.MergeCompact(its, w, sstables.ScanReduceLatestWins)
		}},
		{"MergeCompact(LatestWinsSkipTombstones)", func(its []sstables.SSTableMergeIteratorContext, w sstables.SSTableStreamWriterI) error {
			return m.MergeCompact(its, w, sstables.ScanReduceLatestWinsSkipTombstones)
		}},
	}
	if !shared {
		ops = append(ops, op{"Merge", func(its []sstables.SSTableMergeIteratorContext, w sstables.SSTableStreamWriterI) error {
			return m.Merge(its, w)
		}})
	}
	runWith := func(o op, faults []c11Flt) (out []kv, err error, pan any) {
		budget := 400
		var its []sstables.SSTableMergeIteratorContext
		for i, in := range inputs {
			it := &memIt{recs: in, failAt: -1, budget: &budget}
			for _, f := range faults {
				if f.Kind == "it" && f.In == i {
					it.failAt, it.perm, it.fuse, it.errID = f.Pos, f.Perm, 8, f.Err
				}
			}
			its = append(its, sstables.NewMergeIteratorContext(i, it))
		}
		w := &memWriter{failAt: -1}
		for _, f := range faults {
			if f.Kind == "w" {
				w.failAt = f.Pos
			}
		}
		func() {
			defer func() { pan = recover() }()
			err = o.run(its, w)
		}()
		return w.out, err, pan
	}
	for _, o := range ops {
		if cs.OnlyO != "" && cs.OnlyO != o.name {
			continue
		}
		clean, err, pan := runWith(o, nil)
		if err != nil || pan != nil {
			r.Viol = append(r.Viol, core.Violation{Desc: fmt.Sprintf("%s over %v fails without any fault: %v %v", o.name, list, err, pan)})
			continue
		}
		// fault alphabet for this list
		var fl []c11Flt
		for i, in := range inputs {
			for p := 0; p <= len(in); p++ {
				fl = append(fl, c11Flt{Kind: "it", In: i, Pos: p}, c11Flt{Kind: "it", In: i, Pos: p, Perm: true})
			}
		}
		for q := 0; q < len(clean); q++ {
			fl = append(fl, c11Flt{Kind: "w", Pos: q})
		}
		var sets [][]c11Flt
		if cs.OnlyF != nil {
			sets = [][]c11Flt{cs.OnlyF}
		} else {
			for i := range fl {
				sets = append(sets, []c11Flt{fl[i]})
				if fl[i].Kind == "it" {
					// the same single fault under the other error identities
					for id := 1; id <= 3; id++ {
						f := fl[i]
						f.Err = id
						sets = append(sets, []c11Flt{f})
					}
				}
				for j := i + 1; j < len(fl) && !cs.NoPairs; j++ {
					if fl[i].Kind == fl[j].Kind && fl[i].In == fl[j].In {
						continue // one fault per iterator / writer
					}
					sets = append(sets, []c11Flt{fl[i], fl[j]})
				}
			}
		}
		for _, fs := range sets {
			out, err, pan := runWith(o, fs)
			r.Traces++
			r.Evals++
			r.Trans += int64(len(out))
			r.Keys = append(r.Keys, core.HashKey(o.name, fmt.Sprint(list), fmt.Sprint(fs)))
			bad := ""
			switch {
			case pan != nil:
				bad = fmt.Sprintf("panicked: %v", pan)
			case err != nil:
				// reported: fine
			case !kvsEq(normKeys(out), clean):
				bad = fmt.Sprintf("returned nil but wrote %s, fault-free output is %s", kvsStr(out), kvsStr(clean))
			}
			if bad != "" && len(r.Viol) < 8 {
				sig := ""
				allW, anyW := true, false
				for _, f := range fs {
					if f.Kind == "w" {
						anyW = true
					} else {
						allW = false
					}
				}
				switch {
				case allW && o.name != "Merge":
					sig = "D5-mergecompact-ignores-writer-error"
				case !anyW || o.name == "Merge":
					sig = "D4-merge-iterator-error-swallowed"
				default:
					sig = "D4+D5-iterator-and-writer-error"
				}
				var tabs []string
				for s, code := range list {
					tabs = append(tabs, kvsStr(c08Table(code, s, 3)))
				}
				r.Viol = append(r.Viol, core.Violation{Sig: sig, Desc: fmt.Sprintf("%s over %v with faults %+v %s", o.name, tabs, fs, bad),
					Case: core.J(c11Case{K: len(list), Only: list, OnlyF: fs, OnlyO: o.name})})
			}
		}
	}
	sort.Strings(r.Keys)
	r.Keys = uniq(r.Keys)
}

// ---- real stream writer under write/close faults

type c11WF struct {
	N         int    `json:"n"`
	Site      string `json:"site"`
	At        int    `json:"at"`
	RealClose bool   `json:"real_close"` // a failing Close still closes the file (reports a late flush error) or not
}

type wfData struct {
	recordio.WriterI
	failWriteAt int
	writes      int
	failClose   bool
	realClose   bool
}

func (f *wfData) Write(b []byte) (uint64, error) {
	n := f.writes
	f.writes++
	if n == f.failWriteAt {
		return 0, errC11
	}
	return f.WriterI.Write(b)
}
func (f *wfData) Close() error {
	if f.failClose {
		if f.realClose {
			f.WriterI.Close()
		}
		return errC11
	}
	return f.WriterI.Close()
}

type wfIndex struct {
	rProto.WriterI
	failWriteAt int
	writes      int
	failClose   bool
	realClose   bool
}

func (f *wfIndex) Write(m proto.Message) (uint64, error) {
	n := f.writes
	f.writes++
	if n == f.failWriteAt {
		return 0, errC11
	}
	return f.WriterI.Write(m)
}
func (f *wfIndex) Close() error {
	if f.failClose {
		if f.realClose {
			f.WriterI.Close()
		}
		return errC11
	}
	return f.WriterI.Close()
}

func (c c11) wfCase(w *core.WCtx, cs *c11WF) core.Result {
	var r core.Result
	dir := w.Dir()
	name := fmt.Sprintf("stream writer, %d records, fault at %s #%d (file closed anyway: %v)", cs.N, cs.Site, cs.At, cs.RealClose)
	viol := func(f string, a ...any) {
		r.Viol = append(r.Viol, core.Violation{Sig: "", Desc: name + ": " + fmt.Sprintf(f, a...), Case: core.J(c11Case{WF: cs})})
	}
	defer func() {
		if p := recover(); p != nil {
			viol("panic: %v", p)
		}
	}()
	wr, err := sstables.NewSSTableStreamWriter(sstables.WriteBasePath(dir), sstables.WithKeyComparator(skiplist.BytesComparator{}), sstables.WriteBufferSizeBytes(4096))
	if err != nil {
		viol("writer: %v", err)
		return r
	}
	if err := wr.Open(); err != nil {
		viol("open: %v", err)
		return r
	}
	fd := &wfData{failWriteAt: -1, realClose: cs.RealClose}
	fi := &wfIndex{failWriteAt: -1, realClose: cs.RealClose}
	switch cs.Site {
	case "dataWrite":
		fd.failWriteAt = cs.At
	case "indexWrite":
		fi.failWriteAt = cs.At
	case "dataClose":
		fd.failClose = true
	case "indexClose":
		fi.failClose = true
	}
	sstables.VerifWrapWriters(wr, func(d recordio.WriterI) recordio.WriterI { fd.WriterI = d; return fd }, func(i rProto.WriterI) rProto.WriterI { fi.WriterI = i; return fi })
	var want []kv
	anyErr := false
	for i := 0; i < cs.N; i++ {
		e := kv{[]byte(fmt.Sprintf("k%d", i)), []byte(fmt.Sprintf("value-%d", i))}
		if err := wr.WriteNext(e.K, e.V); err != nil {
			anyErr = true
		} else {
			want = append(want, e)
		}
		r.Trans++
	}
	if err := wr.Close(); err != nil {
		anyErr = true
	}
	r.Traces++
	r.Evals++
	r.Key = core.HashKey(name)
	if !anyErr {
		// nothing was reported: then the table must be complete
		rd, err := openTable(dir, tblR{RBuf: 4096})
		if err != nil {
			viol("every WriteNext and Close returned nil although an append/flush failed, and the table is unreadable: %v", err)
			return r
		}
		defer rd.Close()
		it, _ := rd.Scan()
		got, err := drain(it, 10)
		if err != nil || !kvsEq(got, want) {
			viol("every WriteNext and Close returned nil although an append/flush failed; table holds %s,%v of %s", kvsStr(got), err, kvsStr(want))
		}
	}
	r.Outcome = "wf " + cs.Site
	return r
}
