package checks

import (
	"encoding/binary"
	"encoding/json"
	"errors"
	"fmt"
	"io"
	"os"

	"github.com/thomasjungblut/go-sstables/recordio"
	"verif/internal/core"
)

// C12: a cut or header-damaged RecordIO file yields only genuine records, in order.

type c12 struct{}

func init()            { core.Register(c12{}) }
func (c12) ID() string { return "C12" }

type c12Case struct {
	Prog []wop `json:"prog"`
	Comp int   `json:"comp"`
	// optional narrowing for replays
	OnlyCut  *int  `json:"only_cut,omitempty"`
	OnlyPos  *int  `json:"only_pos,omitempty"`
	OnlyVal  *int  `json:"only_val,omitempty"`
	OnlyFile *bool `json:"only_fileheader,omitempty"`
}

func (c c12) Run(ctx *core.Ctx) error {
	alpha := rioAlphabet()
	var all []int
	for i := range alpha {
		all = append(all, i)
	}
	big := rioRecIndex("big")
	maxLen := 2
	if ctx.Tier == "thorough" {
		maxLen = 3
	}
	var cases []json.RawMessage
	for l := 0; l <= maxLen; l++ {
		for _, p := range rioPrograms(l, all, nil, 1, big) {
			seek := false
			for _, o := range p {
				seek = seek || o.Op == "K"
			}
			if seek {
				continue
			}
			for comp := 0; comp < 4; comp++ {
				cases = append(cases, core.J(c12Case{Prog: p, Comp: comp}))
			}
		}
	}
	ctx.Ev.Level = "fault_enumeration"
	ctx.Ev.Rule = "files of up to N records over the 12-record alphabet x 4 compressions, read with buffers {5,4096}: (a) every truncation length 0..size, sequential and random-access reader; (b) every byte of every record header x all 255 other values (files <= 300 bytes) or 8 bit flips + {00,ff,91,8d,4c} (larger files), both readers; (c) every single-byte change of the 8 file-header bytes that leaves the supported range plus {0,5,255,2^32-1} as version and {4,255,2^32-1} as compression. a damaged copy is distinct by (file, damage); non-trivial = the file has at least one record"
	ctx.Ev.Bounds["max_records"] = maxLen
	ctx.Ev.Bounds["files"] = len(cases)
	rs := ctx.Pmap(cases)
	ctx.Fold(rs, cases)
	for i, r := range rs {
		if r.Died {
			ctx.Report(core.Violation{Desc: "worker died (reader panicked or exhausted memory on a damaged file): " + r.DiedMsg, Case: cases[i]})
		}
	}
	return nil
}

// parse the record header at off; returns header length and stored payload length
func parseHeaderLen(data []byte, off uint64, compressed bool) (hlen int, plen int, ok bool) {
	b := data[off:]
	p := 0
	_, n := binary.Uvarint(b[p:])
	if n <= 0 {
		return
	}
	p += n
	if p >= len(b) {
		return
	}
	isNil := b[p] == 1
	p++
	u, n := binary.Uvarint(b[p:])
	if n <= 0 {
		return
	}
	p += n
	cz, n := binary.Uvarint(b[p:])
	if n <= 0 {
		return
	}
	p += n
	_, n = binary.Uvarint(b[p:])
	if n <= 0 {
		return
	}
	p += n
	pl := int(u)
	if compressed {
		pl = int(cz)
	}
	if isNil {
		pl = 0
	}
	return p, pl, true
}

func (c c12) Case(w *core.WCtx, payload json.RawMessage) core.Result {
	var cs c12Case
	json.Unmarshal(payload, &cs)
	var r core.Result
	alpha := rioAlphabet()
	dir := w.Dir()
	orig := tmpFile(dir, "orig.rio")
	m, _, err := rioWrite(orig, cs.Prog, rioCfg{Comp: cs.Comp, WBuf: 4096}, alpha)
	if err != nil {
		r.Viol = append(r.Viol, core.Violation{Desc: "writer failed: " + err.Error()})
		return r
	}
	data := readAll(orig)
	n := len(m.Recs)
	ends := make([]uint64, n)
	hlens := make([]int, n)
	for i := range m.Recs {
		hl, pl, ok := parseHeaderLen(data, m.Offs[i], cs.Comp != 0)
		if !ok {
			r.Viol = append(r.Viol, core.Violation{Desc: fmt.Sprintf("cannot parse header of record %d of the undamaged file", i)})
			return r
		}
		hlens[i] = hl
		ends[i] = m.Offs[i] + uint64(hl+pl)
	}
	if n > 0 && ends[n-1] != uint64(len(data)) {
		r.Viol = append(r.Viol, core.Violation{Desc: fmt.Sprintf("record layout: last record ends at %d, file has %d bytes", ends[n-1], len(data))})
		return r
	}
	names := ""
	for _, o := range cs.Prog {
		names += alpha[o.Arg].Name + " "
	}
	dmg := tmpFile(dir, "dmg.rio")
	viol := func(sig string, narrowed c12Case, f string, a ...any) {
		if len(r.Viol) < 10 {
			narrowed.Prog, narrowed.Comp = cs.Prog, cs.Comp
			r.Viol = append(r.Viol, core.Violation{Sig: sig, Desc: fmt.Sprintf("[%s] comp=%d: %s", names, cs.Comp, fmt.Sprintf(f, a...)), Case: core.J(narrowed)})
		}
	}
	guard := func(narrowed c12Case, what string, f func()) {
		defer func() {
			if p := recover(); p != nil {
				viol("", narrowed, "%s: panic: %v", what, p)
			}
		}()
		f()
	}
	// ---- (a) truncations
	if cs.OnlyPos == nil && cs.OnlyFile == nil {
		for cut := 0; cut <= len(data); cut++ {
			if cs.OnlyCut != nil && *cs.OnlyCut != cut {
				continue
			}
			if len(data) > 600 && cut > 60 && cut < len(data)-60 && cut%17 != 0 {
				// long files: every cut near both ends and every record boundary +-20, every 17th otherwise
				near := false
				for i := range ends {
					if diff(uint64(cut), ends[i]) <= 20 || diff(uint64(cut), m.Offs[i]) <= 20 {
						near = true
					}
				}
				if !near {
					continue
				}
			}
			cutv := cut
			nc := c12Case{OnlyCut: &cutv}
			os.WriteFile(dmg, data[:cut], 0o644)
			surviving := 0
			for surviving < n && ends[surviving] <= uint64(cut) {
				surviving++
			}
			r.Traces++
			if n > 0 {
				r.Keys = append(r.Keys, core.HashKey(names, fmt.Sprint(cs.Comp), "cut", fmt.Sprint(cut)))
			}
			for _, rb := range []int{5, 4096} {
				guard(nc, "sequential reader on cut file", func() {
					r.Evals++
					rd, err := openSeq(dmg, rb)
					if err != nil {
						if cut >= recordio.FileHeaderSizeBytes {
							viol("", nc, "cut at %d of %d: Open failed although the file header is complete: %v", cut, len(data), err)
						}
						return
					}
					defer rd.Close()
					for i := 0; ; i++ {
						got, err := rd.ReadNext()
						if err != nil {
							if i < surviving {
								viol("", nc, "cut at %d of %d (rbuf %d): record %d is complete but ReadNext failed: %v", cut, len(data), rb, i, err)
							}
							if cut == len(data) && !errors.Is(err, io.EOF) {
								viol("", nc, "uncut file: end signalled by %v instead of EOF", err)
							}
							return
						}
						if i >= surviving {
							viol("", nc, "cut at %d of %d (rbuf %d): ReadNext #%d returned %s although only %d records are complete", cut, len(data), rb, i, recStr(got), surviving)
							return
						}
						if !recEq(got, m.Recs[i]) {
							viol("", nc, "cut at %d of %d (rbuf %d): ReadNext #%d = %s want %s", cut, len(data), rb, i, recStr(got), recStr(m.Recs[i]))
							return
						}
					}
				})
				// the same with records skipped in between (skip-then-read and read-then-skip): what ReadNext returns must
				// still be exactly the record at that position, and never one that is not completely contained
				for _, pat := range []string{"SR", "RS"} {
					guard(nc, "sequential reader with skips on cut file", func() {
						r.Evals++
						rd, err := openSeq(dmg, rb)
						if err != nil {
							return
						}
						defer rd.Close()
						for i := 0; i <= n; i++ {
							if pat[i%2] == 'S' {
								if err := rd.SkipNext(); err != nil {
									if i < surviving {
										viol("", nc, "cut at %d of %d (rbuf %d, pattern %s): record %d is complete but SkipNext failed: %v", cut, len(data), rb, pat, i, err)
									}
									return
								}
								continue
							}
							got, err := rd.ReadNext()
							if err != nil {
								if i < surviving {
									viol("", nc, "cut at %d of %d (rbuf %d, pattern %s): record %d is complete but ReadNext failed: %v", cut, len(data), rb, pat, i, err)
								}
								return
							}
							if i >= surviving {
								viol("", nc, "cut at %d of %d (rbuf %d, pattern %s): ReadNext at position %d returned %s although only %d records are complete", cut, len(data), rb, pat, i, recStr(got), surviving)
								return
							}
							if !recEq(got, m.Recs[i]) {
								viol("", nc, "cut at %d of %d (rbuf %d, pattern %s): ReadNext at position %d = %s want %s", cut, len(data), rb, pat, i, recStr(got), recStr(m.Recs[i]))
								return
							}
						}
					})
				}
			}
			guard(nc, "mmap reader on cut file", func() {
				if cut == 0 {
					return // mapping an empty file is an open error on every platform
				}
				mm, err := recordio.NewMemoryMappedReaderWithPath(dmg)
				if err != nil {
					return
				}
				defer mm.Close()
				if err := mm.Open(); err != nil {
					if cut >= recordio.FileHeaderSizeBytes {
						viol("", nc, "cut at %d: mmap Open failed although the file header is complete: %v", cut, err)
					}
					return
				}
				for i := 0; i < n; i++ {
					r.Evals++
					got, err := mm.ReadNextAt(m.Offs[i])
					if i < surviving {
						if err != nil || !recEq(got, m.Recs[i]) {
							viol("", nc, "cut at %d of %d: ReadNextAt(record %d) = %s,%v want %s", cut, len(data), i, recStr(got), err, recStr(m.Recs[i]))
						}
					} else if err == nil {
						viol("", nc, "cut at %d of %d: ReadNextAt(record %d at %d, ends %d) returned %s instead of an error", cut, len(data), i, m.Offs[i], ends[i], recStr(got))
					}
				}
			})
		}
	}
	// ---- (b) record header alterations
	if cs.OnlyCut == nil && cs.OnlyFile == nil {
		buf := make([]byte, len(data))
		for d := 0; d < n; d++ {
			for hp := 0; hp < hlens[d]; hp++ {
				pos := int(m.Offs[d]) + hp
				if cs.OnlyPos != nil && *cs.OnlyPos != pos {
					continue
				}
				var vals []int
				if len(data) <= 300 {
					for v := 0; v < 256; v++ {
						vals = append(vals, v)
					}
				} else {
					for b := 0; b < 8; b++ {
						vals = append(vals, int(data[pos])^(1<<uint(b)))
					}
					vals = append(vals, 0x00, 0xff, 0x91, 0x8d, 0x4c)
				}
				for _, v := range vals {
					if byte(v) == data[pos] {
						continue
					}
					if cs.OnlyVal != nil && *cs.OnlyVal != v {
						continue
					}
					posv, vv := pos, v
					nc := c12Case{OnlyPos: &posv, OnlyVal: &vv}
					copy(buf, data)
					buf[pos] = byte(v)
					os.WriteFile(dmg, buf, 0o644)
					r.Traces++
					r.Keys = append(r.Keys, core.HashKey(names, fmt.Sprint(cs.Comp), "hdr", fmt.Sprint(pos, v)))
					sig := ""
					// D16: continuation bit set on the last byte of the checksum varint, followed by a 00 byte
					if hp == hlens[d]-1 && byte(v) == data[pos]|0x80 && pos+1 < len(data) && data[pos+1] == 0x00 {
						sig = "D16-crc-varint-continuation"
					}
					guard(nc, "sequential reader on header-damaged file", func() {
						r.Evals++
						rd, err := openSeq(dmg, 4096)
						if err != nil {
							viol("", nc, "header byte %d->%02x: Open failed: %v", pos, v, err)
							return
						}
						defer rd.Close()
						for i := 0; i < d; i++ {
							got, err := rd.ReadNext()
							if err != nil || !recEq(got, m.Recs[i]) {
								viol("", nc, "byte %d (header of record %d) %02x->%02x: earlier record %d = %s,%v want %s", pos, d, data[pos], v, i, recStr(got), err, recStr(m.Recs[i]))
								return
							}
						}
						got, err := rd.ReadNext()
						if err == nil {
							viol(sig, nc, "byte %d (header of record %d, header byte %d of %d) %02x->%02x: ReadNext returned %s instead of an error (written: %s)", pos, d, hp, hlens[d], data[pos], v, recStr(got), recStr(m.Recs[d]))
						}
					})
					guard(nc, "mmap reader on header-damaged file", func() {
						mm, err := recordio.NewMemoryMappedReaderWithPath(dmg)
						if err != nil {
							viol("", nc, "mmap: %v", err)
							return
						}
						defer mm.Close()
						if err := mm.Open(); err != nil {
							viol("", nc, "mmap open: %v", err)
							return
						}
						for i := 0; i < n; i++ {
							r.Evals++
							got, err := mm.ReadNextAt(m.Offs[i])
							if i == d {
								if err == nil {
									viol(sig, nc, "byte %d (header of record %d, header byte %d of %d) %02x->%02x: ReadNextAt returned %s instead of an error (written: %s)", pos, d, hp, hlens[d], data[pos], v, recStr(got), recStr(m.Recs[d]))
								}
							} else if err != nil || !recEq(got, m.Recs[i]) {
								viol("", nc, "byte %d (header of record %d) damaged: ReadNextAt(record %d) = %s,%v want %s", pos, d, i, recStr(got), err, recStr(m.Recs[i]))
							}
						}
					})
				}
			}
		}
	}
	// ---- (c) file header
	if cs.OnlyCut == nil && cs.OnlyPos == nil {
		buf := make([]byte, len(data))
		tv := true
		nc := c12Case{OnlyFile: &tv}
		try := func(mod func(b []byte), what string) {
			copy(buf, data)
			mod(buf)
			ver := binary.LittleEndian.Uint32(buf[0:4])
			comp := binary.LittleEndian.Uint32(buf[4:8])
			if ver >= 1 && ver <= 4 && comp <= 3 {
				return // still a supported header
			}
			os.WriteFile(dmg, buf, 0o644)
			r.Traces++
			r.Evals += 2
			r.Keys = append(r.Keys, core.HashKey(names, fmt.Sprint(cs.Comp), "fh", what))
			guard(nc, "open with damaged file header", func() {
				rd, err := openSeq(dmg, 4096)
				if err == nil {
					rd.Close()
					viol("", nc, "file header %s (version %d compression %d): sequential Open succeeded", what, ver, comp)
				}
				mm, err := recordio.NewMemoryMappedReaderWithPath(dmg)
				if err == nil {
					if err := mm.Open(); err == nil {
						viol("", nc, "file header %s (version %d compression %d): mmap Open succeeded", what, ver, comp)
					}
					mm.Close()
				}
			})
		}
		for p := 0; p < 8; p++ {
			for v := 0; v < 256; v++ {
				pp, vv := p, v
				try(func(b []byte) { b[pp] = byte(vv) }, fmt.Sprintf("byte %d=%02x", p, v))
			}
		}
		for _, ver := range []uint32{0, 5, 255, 1<<32 - 1} {
			vv := ver
			try(func(b []byte) { binary.LittleEndian.PutUint32(b[0:4], vv) }, fmt.Sprintf("version=%d", ver))
		}
		for _, comp := range []uint32{4, 255, 1<<32 - 1} {
			cc := comp
			try(func(b []byte) { binary.LittleEndian.PutUint32(b[4:8], cc) }, fmt.Sprintf("compression=%d", comp))
		}
	}
	r.Outcome = fmt.Sprintf("records=%d ok=%v", n, len(r.Viol) == 0)
	if n == 2 && cs.Comp == 2 && cs.Prog[0].Arg == 2 && cs.Prog[1].Arg == 0 {
		r.Sample = string(core.J(map[string]any{"file": names, "compression": cs.Comp, "bytes": len(data), "truncations": len(data) + 1, "header_bytes": hlens}))
	}
	return r
}

func diff(a, b uint64) uint64 {
	if a > b {
		return a - b
	}
	return b - a
}
