package checks

import (
	"bytes"
	"encoding/json"
	"fmt"
	"os"
	"path/filepath"
	"strings"

	"github.com/thomasjungblut/go-sstables/recordio"
	"github.com/thomasjungblut/go-sstables/wal"
	"verif/internal/core"
)

// C07 (functional half): WAL replay yields the appended records in order across rotations.
// The crash half (every syscall boundary of the appending process) is run by the E3 engine, see c07crash.go.

type c07 struct{}

func init()            { core.Register(c07{}) }
func (c07) ID() string { return "C07" }

type walOp struct {
	Op  string `json:"op"` // "A" append, "S" append sync, "R" rotate
	Rec int    `json:"rec,omitempty"`
}

type c07Case struct {
	Prefix  []walOp   `json:"prefix"`
	Len     int       `json:"len"`
	Only    []walOp   `json:"only,omitempty"`
	OnlyMax uint64    `json:"only_max,omitempty"`
	OnlyBuf int       `json:"only_buf,omitempty"`
	Crash   *c07Crash `json:"crash,omitempty"`
}

func walRecords() [][]byte {
	return [][]byte{{}, []byte("a"), []byte("0123456789"), incompressible(100, 11), incompressible(5000, 12)}
}

func walAlphabet() []walOp {
	var ops []walOp
	for i := range walRecords() {
		ops = append(ops, walOp{"A", i}, walOp{"S", i})
	}
	return append(ops, walOp{Op: "R"})
}

var walMaxSizes = []uint64{1, 24, 64, wal.DefaultMaxWalSize}
var walBufs = []int{16, 4096}

func (c c07) Run(ctx *core.Ctx) error {
	alpha := walAlphabet()
	maxLen := 3
	if ctx.Tier == "thorough" {
		maxLen = 5
	}
	var cases []json.RawMessage
	cases = append(cases, core.J(c07Case{Len: 0}))
	for l := 1; l <= maxLen; l++ {
		for _, op := range alpha {
			cases = append(cases, core.J(c07Case{Prefix: []walOp{op}, Len: l}))
		}
	}
	ctx.Ev.Rule = "every program of Append(r)/AppendSync(r)/Rotate up to the length bound, r in {empty, a, 10 bytes, 100 bytes (> small size limits), 5000 bytes (> write buffer)}, x maximum file size {1, 24, 64, default} x write buffer {16, 4096}, in an empty directory; after Close a fresh replayer must deliver exactly the appended list in order; also the file count/ordering on disk is checked against the rotation rule. distinct = (program, max size, buffer); non-trivial = at least one rotation (forced or by size) and two records; before every replay through the open handle the same object runs a replay that its consumer aborts at the first record"
	ctx.Ev.Bounds["max_program_length"] = maxLen
	ctx.Ev.Assume = []string{"functional half: no crashes; kill-at-every-syscall-boundary is the crash half of this check"}
	rs := ctx.Pmap(cases)
	ctx.Fold(rs, cases)
	for i, r := range rs {
		if r.Died {
			ctx.Report(core.Violation{Desc: "worker died: " + r.DiedMsg, Case: cases[i]})
		}
	}
	return c07CrashHalf(ctx)
}

func walOptions(dir string, max uint64, buf int) (*wal.Options, error) {
	return wal.NewWriteAheadLogOptions(wal.BasePath(dir), wal.MaximumWalFileSizeBytes(max),
		wal.WriterFactory(func(path string) (recordio.WriterI, error) {
			return recordio.NewFileWriter(recordio.Path(path), recordio.BufferSizeBytes(buf), recordio.CompressionType(recordio.CompressionTypeSnappy))
		}),
		wal.ReaderFactory(func(path string) (recordio.ReaderI, error) {
			return recordio.NewFileReader(recordio.ReaderPath(path), recordio.ReaderBufferSizeBytes(4096))
		}))
}

func walProgStr(prog []walOp) string {
	var s []string
	for _, o := range prog {
		switch o.Op {
		case "R":
			s = append(s, "Rotate")
		case "A":
			s = append(s, fmt.Sprintf("Append(r%d)", o.Rec))
		case "S":
			s = append(s, fmt.Sprintf("AppendSync(r%d)", o.Rec))
		}
	}
	return strings.Join(s, " ")
}

func (c c07) Case(w *core.WCtx, payload json.RawMessage) core.Result {
	var cs c07Case
	json.Unmarshal(payload, &cs)
	if cs.Crash != nil {
		return c.crashCase(w, cs.Crash)
	}
	var r core.Result
	alpha := walAlphabet()
	var progs [][]walOp
	if cs.Only != nil {
		progs = [][]walOp{cs.Only}
	} else {
		cur := append([]walOp{}, cs.Prefix...)
		var rec func()
		rec = func() {
			if len(cur) == cs.Len {
				progs = append(progs, append([]walOp{}, cur...))
				return
			}
			for _, op := range alpha {
				cur = append(cur, op)
				rec()
				cur = cur[:len(cur)-1]
			}
		}
		if len(cur) <= cs.Len {
			rec()
		}
	}
	base := w.Dir()
	n := 0
	for _, prog := range progs {
		for _, max := range walMaxSizes {
			for _, buf := range walBufs {
				if cs.Only != nil && (cs.OnlyMax != max || cs.OnlyBuf != buf) {
					continue
				}
				if len(r.Viol) >= 6 {
					break
				}
				n++
				dir := filepath.Join(base, fmt.Sprintf("w%d", n%4))
				os.RemoveAll(dir)
				mustMkdir(dir)
				c.runProgram(dir, prog, max, buf, &r)
			}
		}
	}
	r.Outcome = fmt.Sprintf("len=%d ok=%v", cs.Len, len(r.Viol) == 0)
	if cs.Len == 3 && len(cs.Prefix) == 1 && cs.Prefix[0] == (walOp{"S", 2}) {
		r.Sample = string(core.J(map[string]any{"first_op": "AppendSync(10 bytes)", "programs_in_case": len(progs), "example": "AppendSync(r2) Rotate Append(r4)", "max_sizes": walMaxSizes, "buffers": walBufs}))
	}
	return r
}

func (c c07) runProgram(dir string, prog []walOp, max uint64, buf int, r *core.Result) {
	viol := func(f string, a ...any) {
		if len(r.Viol) < 8 {
			r.Viol = append(r.Viol, core.Violation{Desc: fmt.Sprintf("[%s] max=%d buf=%d: %s", walProgStr(prog), max, buf, fmt.Sprintf(f, a...)),
				Case: core.J(c07Case{Only: prog, OnlyMax: max, OnlyBuf: buf})})
		}
	}
	defer func() {
		if p := recover(); p != nil {
			viol("panic: %v", p)
		}
	}()
	opts, err := walOptions(dir, max, buf)
	if err != nil {
		viol("options: %v", err)
		return
	}
	log, err := wal.NewWriteAheadLog(opts)
	if err != nil {
		viol("create: %v", err)
		return
	}
	recs := walRecords()
	var appended [][]byte
	rotations := 0
	for i, op := range prog {
		r.Trans++
		switch op.Op {
		case "A":
			err = log.Append(recs[op.Rec])
		case "S":
			err = log.AppendSync(recs[op.Rec])
		case "R":
			_, err = log.Rotate()
			rotations++
		}
		if err != nil {
			viol("op %d failed: %v", i, err)
			log.Close()
			return
		}
		if op.Op != "R" {
			appended = append(appended, recs[op.Rec])
		}
		// the log handle replays itself after every step (the same object again and again, across rotations): it must
		// deliver everything appended so far, each time
		// ... also after a replay that its consumer aborted (the callback refuses the first record): whatever that replay
		// returns, it must not change what the next one delivers
		log.Replay(func(rec []byte) error { return fmt.Errorf("consumer refuses the record") })
		var sofar [][]byte
		err = log.Replay(func(rec []byte) error {
			sofar = append(sofar, append([]byte{}, rec...))
			return nil
		})
		r.Evals++
		if err != nil {
			viol("replay through the open handle after op %d failed: %v", i, err)
			log.Close()
			return
		}
		// (unsynced appends may still sit in the write buffer: what is delivered must be a prefix that holds at least
		// everything up to the last synchronous append or rotation)
		minLen := 0
		for j := 0; j <= i; j++ {
			if prog[j].Op == "S" || prog[j].Op == "R" {
				n := 0
				for k := 0; k <= j; k++ {
					if prog[k].Op != "R" {
						n++
					}
				}
				minLen = n
			}
		}
		if len(sofar) > len(appended) || len(sofar) < minLen {
			viol("replay through the open handle after op %d delivered %d records, appended %d (at least %d are flushed)", i, len(sofar), len(appended), minLen)
			log.Close()
			return
		}
		for j := range sofar {
			if !bytes.Equal(sofar[j], appended[j]) {
				viol("replay through the open handle after op %d: record %d = %s, appended %s", i, j, recStr(sofar[j]), recStr(appended[j]))
				log.Close()
				return
			}
		}
	}
	if err := log.Close(); err != nil {
		viol("close: %v", err)
		return
	}
	r.Traces++
	files, _ := filepath.Glob(filepath.Join(dir, "*.wal"))
	if len(files) > 1 && len(appended) >= 2 {
		r.Keys = append(r.Keys, core.HashKey(walProgStr(prog), fmt.Sprint(max, buf)))
	}
	if len(files) < rotations+1 {
		viol("%d wal files after %d forced rotations", len(files), rotations)
	}
	rep, err := wal.NewReplayer(opts)
	if err != nil {
		viol("replayer: %v", err)
		return
	}
	var got [][]byte
	err = rep.Replay(func(rec []byte) error {
		got = append(got, append([]byte{}, rec...))
		return nil
	})
	r.Evals++
	if err != nil {
		viol("replay failed: %v", err)
		return
	}
	if len(got) != len(appended) {
		viol("replay delivered %d records, appended %d", len(got), len(appended))
		return
	}
	for i := range got {
		if !bytes.Equal(got[i], appended[i]) {
			viol("replay record %d = %s, appended %s", i, recStr(got[i]), recStr(appended[i]))
			return
		}
	}
}
