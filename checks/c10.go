package checks

import (
	"encoding/json"
	"fmt"
	"os"
	"path/filepath"
	"strings"

	"verif/internal/core"
	"verif/internal/ktrace"
)

// C10: recovery may be killed at any instant and repeated without changing the outcome.

type c10 struct{}

func init()            { core.Register(c10{}) }
func (c10) ID() string { return "C10" }

type c10Case struct {
	Base   c02Case `json:"base"`
	Depth  int     `json:"depth"` // 2 or 3
	OnlyD1 string  `json:"only_d1,omitempty"`
	Chunk  int     `json:"chunk"`
	Chunks int     `json:"chunks"` // depth-1 images are dealt round-robin to this many cases
}

func (c c10) Run(ctx *core.Ctx) error {
	all := c02{"C02"}.sessions(ctx.Tier)
	var cases []json.RawMessage
	pick := func(cs c02Case) bool {
		if ctx.Tier == "thorough" {
			return true
		}
		switch {
		case cs.Name == "i" && len(cs.Sess.Ops) == 4 && cs.Sess.Ops[1].V == "I80" && cs.Sess.Ops[2].Op == "del":
			return true
		case cs.Name == "ii-reopen-compact", cs.Name == "iii-two-sessions", cs.Name == "ii-compact-excluding-oldest", cs.Name == "ii-compact-3-tables":
			return true
		case cs.Name == "vi-hold-flusher-3", cs.Name == "vi-hold-compactor-2", cs.Name == "vi-hold-compactor-7":
			return true
		}
		return false
	}
	for _, cs := range all {
		if !pick(cs) {
			continue
		}
		depth := 2
		if cs.Name == "i" && len(cs.Sess.Ops) <= 4 {
			depth = 3
		}
		chunks := 8
		if depth == 3 {
			chunks = 24
		}
		for ch := 0; ch < chunks; ch++ {
			cases = append(cases, core.J(c10Case{Base: cs, Depth: depth, Chunk: ch, Chunks: chunks}))
		}
	}
	ctx.Ev.Rule = "for every distinct crash image (depth 1) of the selected C02 sessions on which an uninterrupted recovery succeeds: recovery (Open with default options) is run under the tracer and the directory is snapshotted at every boundary between two mutating system calls up to the moment Open returns (depth 2); every depth-2 image is recovered again by a fresh process and must succeed with exactly the reads of the uninterrupted recovery of its depth-1 image; for the short sessions the recovery of every depth-2 image is traced once more (depth 3). distinct = (depth-1 image, depth-2 image[, depth-3 image]); non-trivial = the interrupted recovery had completed at least one mutating call"
	ctx.Ev.Bounds["session_chunks"] = len(cases)
	ctx.Ev.Assume = []string{"same kill -9 fault model as C02; directory listing order: filepath.Walk sorts, and the run uses the tmpfs scratch file system"}
	rs := ctx.Pmap(cases)
	ctx.Fold(rs, cases)
	for i, r := range rs {
		if r.Died {
			ctx.Report(core.Violation{Desc: "worker died: " + r.DiedMsg, Case: cases[i]})
		}
	}
	return nil
}

func (c c10) Case(w *core.WCtx, payload json.RawMessage) core.Result {
	var cs c10Case
	json.Unmarshal(payload, &cs)
	var r core.Result
	r.Extra = map[string]int64{}
	dir := w.Dir()
	dbdir := filepath.Join(dir, "db")
	mustMkdir(dbdir)
	sp := writeSession(dir, cs.Base.Sess)
	tr := ktrace.Run(ktrace.Options{Dir: dbdir, Argv: []string{binPath("vchild"), "run", dbdir, sp}, Hold: cs.Base.Hold})
	name := fmt.Sprintf("session %s [%s]%s", cs.Base.Name, sessStr(cs.Base.Sess), holdStr(cs.Base.Hold))
	viol := func(d1 string, f string, a ...any) {
		if len(r.Viol) < 8 {
			nc := cs
			nc.OnlyD1 = d1
			r.Viol = append(r.Viol, core.Violation{Desc: name + ": " + fmt.Sprintf(f, a...), Case: core.J(nc)})
		}
	}
	if tr.Err != nil {
		viol("", "tracer: %v", tr.Err)
		return r
	}
	seen2 := map[string]bool{}
	if cs.OnlyD1 != "" {
		// image hashes contain the random compaction directory name: fall back to the whole session when it does not recur
		found := false
		for _, img := range tr.Images {
			found = found || img.Hash == cs.OnlyD1
		}
		if !found {
			cs.OnlyD1 = ""
		}
	}
	for i1, img1 := range tr.Images {
		if cs.OnlyD1 != "" && cs.OnlyD1 != img1.Hash {
			continue
		}
		if cs.OnlyD1 == "" && cs.Chunks > 1 && i1%cs.Chunks != cs.Chunk {
			continue
		}
		// reference: uninterrupted recovery of the depth-1 image
		ref, exit, _, err := recoverImage(tr, img1, filepath.Join(dir, "r1"), crashKeys)
		if err != nil || exit != 0 || ref.OpenErr != "" {
			r.Extra["depth1_images_not_recoverable(reported by C02)"]++
			continue
		}
		want := dumpMap(ref)
		r.Extra["depth1_images"]++
		c.nest(tr, img1, fmt.Sprintf("depth-1 image %d", i1), want, cs.Depth-1, dir, seen2, &r, func(f string, a ...any) { viol(img1.Hash, f, a...) })
		if len(r.Viol) >= 8 {
			break
		}
	}
	r.Outcome = fmt.Sprintf("%s depth=%d ok=%v", strings.SplitN(cs.Base.Name, "-", 2)[0], cs.Depth, len(r.Viol) == 0)
	if cs.Base.Name == "iii-two-sessions" {
		r.Sample = string(core.J(map[string]any{"session": sessStr(cs.Base.Sess), "depth1_images": r.Extra["depth1_images"], "depth2_images": r.Extra["depth2_images"]}))
	}
	return r
}

// nest traces one recovery of img (materialised fresh), and checks every image taken during it.
func (c c10) nest(src *ktrace.Trace, img ktrace.Image, label string, want map[string]string, more int, dir string, seen map[string]bool, r *core.Result, viol func(f string, a ...any)) {
	work := filepath.Join(dir, fmt.Sprintf("t%d", more))
	removeAll(work)
	if err := src.Materialize(img, work); err != nil {
		viol("harness: %v", err)
		return
	}
	// the interrupted recovery at depth 2 runs with small write buffers (every piece of the table it flushes is a
	// boundary of its own); deeper levels and the final comparison use the defaults
	var env []string
	if more == 1 || os.Getenv("VERIF_C10_SMALL") != "" {
		env = []string{"VCHILD_SMALL_BUFFERS=1"}
		label += " [interrupted recovery with 16-byte write buffer]"
	}
	tr := ktrace.Run(ktrace.Options{Dir: work, Argv: append([]string{binPath("vchild"), "recover", work}, crashKeys...), StopAfter: "OPENED", Env: env})
	if tr.Err != nil {
		viol("%s: tracer: %v", label, tr.Err)
		return
	}
	r.Trans += int64(len(tr.Events))
	if !tr.Stopped {
		viol("%s: traced recovery ended without reaching OPENED (exit %d)", label, tr.ExitCode)
		return
	}
	for i2, img2 := range tr.Images {
		key := img.Hash + "/" + img2.Hash
		if seen[key] {
			continue
		}
		seen[key] = true
		d, exit, stderr, err := recoverImage(tr, img2, filepath.Join(dir, fmt.Sprintf("r%d", more+1)), crashKeys)
		r.Traces++
		r.Evals++
		r.Extra[fmt.Sprintf("depth%d_images", 4-more-1+0)]++
		where := fmt.Sprintf("%s, recovery interrupted at its image %d of %d (%s)", label, i2, len(tr.Images), c.boundary(tr, i2))
		if i2 > 0 {
			r.Keys = append(r.Keys, core.HashKey(key))
		}
		switch {
		case err != nil:
			viol("%s: harness: %v", where, err)
		case exit != 0:
			viol("%s: the repeated recovery died with exit %d: %s", where, exit, stderr)
		case d.OpenErr != "":
			viol("%s: the repeated Open failed: %s", where, d.OpenErr)
			if keep := os.Getenv("VERIF_KEEP"); keep != "" {
				removeAll(keep)
				tr.Materialize(img2, keep)
			}
		case !mapsEq(dumpMap(d), want):
			viol("%s: the repeated recovery reads %s, the uninterrupted one %s", where, mapStr(dumpMap(d)), mapStr(want))
		default:
			if more > 1 {
				c.nest(tr, img2, where, want, more-1, dir, seen, r, viol)
			}
		}
	}
}

func (c c10) boundary(tr *ktrace.Trace, img int) string {
	for _, e := range tr.Events {
		if e.Kind == "call" && e.Image == img {
			return fmt.Sprintf("before %s %s", e.Nr, e.Path)
		}
	}
	return "when Open returned"
}
