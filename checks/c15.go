package checks

import (
	"bytes"
	"encoding/json"
	"errors"
	"fmt"
	"os"
	"path/filepath"

	"github.com/thomasjungblut/go-sstables/recordio"
	rProto "github.com/thomasjungblut/go-sstables/recordio/proto"
	"github.com/thomasjungblut/go-sstables/skiplist"
	"github.com/thomasjungblut/go-sstables/sstables"
	"google.golang.org/protobuf/proto"
	"verif/internal/core"
)

// C15: a table holds exactly the accepted writes, ascending, with truthful metadata.

type c15 struct{}

func init()            { core.Register(c15{}) }
func (c15) ID() string { return "C15" }

type c15Op struct {
	K     int `json:"k"`
	V     int `json:"v"`     // 0 = nil, 1 = "v"
	Fault int `json:"fault"` // 0 none, 1 data append fails, 2 index append fails
}

type c15Case struct {
	Prefix []c15Op  `json:"prefix"`
	Len    int      `json:"len"`
	Cfgs   [][2]int `json:"cfgs"` // (data compression, write buffer)
	Only   []c15Op  `json:"only,omitempty"`
}

var c15Keys = [][]byte{{}, []byte("a"), []byte("ab"), []byte("b"), []byte("ba")}

var errInjectedIO = errors.New("injected I/O failure")

type failingData struct {
	recordio.WriterI
	fail bool
}

func (f *failingData) Write(b []byte) (uint64, error) {
	if f.fail {
		return 0, errInjectedIO
	}
	return f.WriterI.Write(b)
}

type failingIndex struct {
	rProto.WriterI
	fail bool
}

func (f *failingIndex) Write(m proto.Message) (uint64, error) {
	if f.fail {
		return 0, errInjectedIO
	}
	return f.WriterI.Write(m)
}

func c15Alphabet() []c15Op {
	var ops []c15Op
	for k := range c15Keys {
		for v := 0; v < 2; v++ {
			for f := 0; f < 3; f++ {
				ops = append(ops, c15Op{k, v, f})
			}
		}
	}
	return ops
}

func (c c15) Run(ctx *core.Ctx) error {
	alpha := c15Alphabet()
	var cfgs [][2]int
	for comp := 0; comp < 4; comp++ {
		for _, wb := range []int{5, 4096} {
			if ctx.Tier != "thorough" && wb == 4096 && comp%2 == 1 {
				continue
			}
			cfgs = append(cfgs, [2]int{comp, wb})
		}
	}
	var cases []json.RawMessage
	cases = append(cases, core.J(c15Case{Len: 0, Cfgs: cfgs}))
	maxLen := 3
	for l := 1; l <= maxLen; l++ {
		for _, op := range alpha {
			cases = append(cases, core.J(c15Case{Prefix: []c15Op{op}, Len: l, Cfgs: cfgs}))
		}
	}
	if ctx.Tier == "thorough" {
		for _, a := range alpha {
			for _, b := range alpha {
				cases = append(cases, core.J(c15Case{Prefix: []c15Op{a, b}, Len: 4, Cfgs: [][2]int{{0, 5}, {2, 4096}, {1, 5}}}))
			}
		}
		maxLen = 4
	}
	ctx.Ev.Rule = "every program of WriteNext(k,v,fault) calls up to the length bound with k in {\"\",a,ab,b,ba} (unsorted, repeated, empty), v in {nil,\"v\"}, fault in {none, data append fails, index append fails} x data compression x write buffer {5,4096}; each call's error result is compared with the ascending-key rule relative to the last accepted key, the table is closed and read back (reader + sequential data file) and must contain exactly the calls that returned nil; metadata must describe exactly that set and the file sizes on disk; key and value are handed over in reused caller buffers that are overwritten after every call. distinct = (program, config); non-trivial = at least one rejected or failed call and one accepted call"
	ctx.Ev.Bounds["max_program_length"] = maxLen
	ctx.Ev.Bounds["ops_alphabet"] = len(alpha)
	rs := ctx.Pmap(cases)
	ctx.Fold(rs, cases)
	for i, r := range rs {
		if r.Died {
			ctx.Report(core.Violation{Desc: "worker died: " + r.DiedMsg, Case: cases[i]})
		}
	}
	return nil
}

func (c c15) Case(w *core.WCtx, payload json.RawMessage) core.Result {
	var cs c15Case
	json.Unmarshal(payload, &cs)
	var r core.Result
	alpha := c15Alphabet()
	base := w.Dir()
	var progs [][]c15Op
	if cs.Only != nil {
		progs = [][]c15Op{cs.Only}
	} else {
		cur := append([]c15Op{}, cs.Prefix...)
		var rec func()
		rec = func() {
			if len(cur) == cs.Len {
				progs = append(progs, append([]c15Op{}, cur...))
				return
			}
			for _, op := range alpha {
				cur = append(cur, op)
				rec()
				cur = cur[:len(cur)-1]
			}
		}
		if len(cur) <= cs.Len {
			rec()
		}
	}
	n := 0
	for _, prog := range progs {
		for _, cfg := range cs.Cfgs {
			if len(r.Viol) >= 6 {
				break
			}
			n++
			dir := filepath.Join(base, fmt.Sprintf("t%d", n%4))
			os.RemoveAll(dir)
			mustMkdir(dir)
			c.runProgram(dir, prog, cfg, &r)
		}
	}
	r.Outcome = fmt.Sprintf("len=%d ok=%v", cs.Len, len(r.Viol) == 0)
	if cs.Len == 3 && len(cs.Prefix) == 1 && cs.Prefix[0] == (c15Op{1, 1, 0}) {
		r.Sample = string(core.J(map[string]any{"first_op": "WriteNext(a,v) no fault", "programs_in_case": len(progs), "configs": len(cs.Cfgs), "example": []string{"WriteNext(a,v)", "WriteNext(b,nil) data append fails", "WriteNext(ab,v)"}}))
	}
	return r
}

func (c c15) runProgram(dir string, prog []c15Op, cfg [2]int, r *core.Result) {
	progStr := ""
	for _, op := range prog {
		progStr += fmt.Sprintf("W(%q,%s,%s) ", c15Keys[op.K], []string{"nil", "v"}[op.V], []string{"ok", "dataFail", "indexFail"}[op.Fault])
	}
	viol := func(sig, f string, a ...any) {
		if len(r.Viol) < 8 {
			r.Viol = append(r.Viol, core.Violation{Sig: sig, Desc: fmt.Sprintf("[%s] comp=%d wbuf=%d: %s", progStr, cfg[0], cfg[1], fmt.Sprintf(f, a...)),
				Case: core.J(c15Case{Only: prog, Cfgs: [][2]int{cfg}})})
		}
	}
	defer func() {
		if p := recover(); p != nil {
			viol("", "panic: %v", p)
		}
	}()
	w, err := sstables.NewSSTableStreamWriter(sstables.WriteBasePath(dir), sstables.WithKeyComparator(skiplist.BytesComparator{}),
		sstables.DataCompressionType(cfg[0]), sstables.WriteBufferSizeBytes(cfg[1]))
	if err != nil {
		viol("", "writer: %v", err)
		return
	}
	if err := w.Open(); err != nil {
		viol("", "open: %v", err)
		return
	}
	fd := &failingData{}
	fi := &failingIndex{}
	sstables.VerifWrapWriters(w, func(d recordio.WriterI) recordio.WriterI { fd.WriterI = d; return fd }, func(i rProto.WriterI) rProto.WriterI { fi.WriterI = i; return fi })
	var accepted []kv
	var lastAccepted []byte
	haveAccepted := false
	var maxFailed []byte // largest key of a failed (not accepted) call since the last accepted one
	haveFailed := false
	interesting := false
	failedBeforeFirstAccept := false
	// key and value travel in caller-owned buffers that are reused for the next call (the way a merge loop or a
	// decoder hands them over): once WriteNext has returned, their content belongs to the caller again
	kbuf, vbuf := make([]byte, 0, 8), make([]byte, 0, 8)
	for i, op := range prog {
		k := c15Keys[op.K]
		var v []byte
		if op.V == 1 {
			v = []byte("v")
		}
		fd.fail, fi.fail = op.Fault == 1, op.Fault == 2
		kArg := append(kbuf[:0], k...)
		vArg := v
		if v != nil {
			vArg = append(vbuf[:0], v...)
		}
		err := w.WriteNext(kArg, vArg)
		for j := range kbuf[:cap(kbuf)] {
			kbuf[:cap(kbuf)][j] = 0xEE
		}
		for j := range vbuf[:cap(vbuf)] {
			vbuf[:cap(vbuf)][j] = 0xEE
		}
		r.Trans++
		r.Evals++
		mustReject := haveAccepted && bytes.Compare(k, lastAccepted) <= 0
		switch {
		case mustReject:
			interesting = true
			if err == nil {
				viol("", "call %d: key %q is not greater than the last accepted key %q but was accepted", i, k, lastAccepted)
			}
		case op.Fault != 0:
			interesting = true
			if err == nil {
				viol("", "call %d: injected %s failure but WriteNext returned nil", i, []string{"", "data", "index"}[op.Fault])
			}
		default:
			// no fault, key greater than the last accepted key: must be accepted unless an earlier failed call
			// offered a key >= k (the statement demands nothing about keys in that gap)
			if err != nil && !(haveFailed && bytes.Compare(k, maxFailed) <= 0) {
				viol("", "call %d: key %q (last accepted %q) rejected without reason: %v", i, k, lastAccepted, err)
			}
		}
		if err == nil {
			accepted = append(accepted, kv{k, v})
			lastAccepted, haveAccepted = k, true
			haveFailed = false
		} else if !mustReject {
			if !haveAccepted {
				failedBeforeFirstAccept = true
			}
			if !haveFailed || bytes.Compare(k, maxFailed) > 0 {
				maxFailed, haveFailed = k, true
			}
		}
	}
	fd.fail, fi.fail = false, false
	if err := w.Close(); err != nil {
		viol("", "Close failed: %v", err)
		return
	}
	r.Traces++
	if interesting && len(accepted) > 0 {
		r.Keys = append(r.Keys, core.HashKey(progStr, fmt.Sprint(cfg)))
	}
	// accepted must be strictly ascending (follows from the rule above, checked anyway)
	for i := 1; i < len(accepted); i++ {
		if bytes.Compare(accepted[i-1].K, accepted[i].K) >= 0 {
			viol("", "accepted keys not strictly ascending: %s", kvsStr(accepted))
		}
	}
	rd, err := openTable(dir, tblR{RBuf: 4096})
	if err != nil {
		viol("", "table written by accepted calls %s cannot be opened: %v", kvsStr(accepted), err)
		return
	}
	defer rd.Close()
	probes := append([][]byte{}, c15Keys...)
	probes = append(probes, []byte("zz"))
	for _, b := range probeSortedMap(rd, accepted, probes, "default", &r.Evals) {
		viol("", "accepted %s: %s", kvsStr(accepted), b.Desc)
	}
	// sequential data file holds exactly the accepted values, nothing lingering
	seq, err := openSeq(filepath.Join(dir, sstables.DataFileName), 4096)
	if err != nil {
		viol("", "data file: %v", err)
	} else {
		for i := 0; ; i++ {
			v, err := seq.ReadNext()
			if err != nil {
				if i != len(accepted) {
					viol("", "data file holds %d records (%v), accepted %d", i, err, len(accepted))
				}
				break
			}
			if i >= len(accepted) || !recEq(v, accepted[i].V) {
				viol("", "data file record %d = %s does not match the accepted writes %s", i, recStr(v), kvsStr(accepted))
				break
			}
		}
		seq.Close()
	}
	md := rd.MetaData()
	nulls := 0
	for _, e := range accepted {
		if e.V == nil {
			nulls++
		}
	}
	r.Evals += 3
	if md.NumRecords != uint64(len(accepted)) || md.NullValues != uint64(nulls) {
		viol("", "metadata NumRecords=%d NullValues=%d, accepted %d with %d nil values", md.NumRecords, md.NullValues, len(accepted), nulls)
	}
	if len(accepted) > 0 {
		// D14 matcher: MinKey/MaxKey name a key of a call that failed
		sig := ""
		if failedBeforeFirstAccept || haveFailed {
			sig = "D14-metadata-keys-of-failed-writes"
		}
		if !bytes.Equal(md.MinKey, accepted[0].K) {
			viol(sig, "metadata MinKey=%q but the smallest accepted key is %q", md.MinKey, accepted[0].K)
		}
		if !bytes.Equal(md.MaxKey, accepted[len(accepted)-1].K) {
			viol(sig, "metadata MaxKey=%q but the largest accepted key is %q", md.MaxKey, accepted[len(accepted)-1].K)
		}
	}
	ds, _ := os.Stat(filepath.Join(dir, sstables.DataFileName))
	is, _ := os.Stat(filepath.Join(dir, sstables.IndexFileName))
	if ds != nil && is != nil {
		if md.DataBytes != uint64(ds.Size()) || md.IndexBytes != uint64(is.Size()) || md.TotalBytes != md.DataBytes+md.IndexBytes {
			viol("", "metadata DataBytes=%d IndexBytes=%d TotalBytes=%d, files have %d and %d bytes", md.DataBytes, md.IndexBytes, md.TotalBytes, ds.Size(), is.Size())
		}
	}
}
