package checks

import (
	"encoding/json"
	"fmt"
	"path/filepath"
	"sort"
	"strings"
	"time"

	"verif/internal/core"
	"verif/internal/ktrace"
	"verif/internal/sess"
)

// System half of C11: a failing system call at every position of a flush or a compaction.

type c11Sys struct {
	Name  string       `json:"name"`
	Sess  sess.Session `json:"sess"`
	K     int          `json:"k"` // -1 = fault-free reference run
	Errno int          `json:"errno"`
	Short bool         `json:"short,omitempty"`
	// Classes / After: which calls are counted for the fault (default: flusher and compactor threads, from the start)
	Classes []string `json:"classes,omitempty"`
	After   string   `json:"after,omitempty"`
	MaxK    int      `json:"-"`
	// Damage: no system call fails; the session itself damages an input table on disk before it compacts
	Damage bool `json:"damage,omitempty"`
}

func c11SysSessions() []c11Sys {
	small := sess.Cfg{Mem: 90, Thresh: 0, Ratio: 1.0, RBuf: 4096, WBuf: 16}
	a := c02Alphabet()
	reopen := small
	return []c11Sys{
		// the flush that recovery performs for a WAL left behind: the first handle is abandoned without Close (the
		// directory is what a stopped process leaves), the fault hits the calls of the second Open
		{Name: "recovery-flush", Classes: []string{"client", "flusher"}, After: "STOPPED", MaxK: 40,
			Sess: mkDBSession(small, a[1], a[3], sess.Op{Op: "mark", Text: "STOPPED"}, sess.Op{Op: "abandon"}, sess.Op{Op: "open", Cfg: &reopen}, sess.Op{Op: "close"})},
		{Name: "flush", Sess: mkDBSession(small, a[0], sess.Op{Op: "barrier"}, a[1], a[2], sess.Op{Op: "close"})},
		{Name: "flush+compaction", Sess: mkDBSession(small, a[0], sess.Op{Op: "barrier"}, a[2], sess.Op{Op: "rotwait"}, a[1], sess.Op{Op: "compact"}, a[3], sess.Op{Op: "close"})},
	}
}

func classesOr(c, def []string) []string {
	if len(c) > 0 {
		return c
	}
	return def
}

func c11SystemHalf(ctx *core.Ctx) error {
	var cases []json.RawMessage
	n := 0
	for _, s := range c11SysSessions() {
		// number of flusher/compactor calls of the fault-free run (measured by a local reference run in a worker)
		maxK := 70
		if s.Name == "flush+compaction" {
			maxK = 130
		}
		if s.MaxK > 0 {
			maxK = s.MaxK
		}
		for k := 0; k < maxK; k++ {
			for _, errno := range []int{5, 28} { // EIO, ENOSPC
				if errno == 28 && ctx.Tier != "thorough" && k%3 != 0 {
					continue
				}
				c := s
				c.K, c.Errno = k, errno
				cases = append(cases, core.J(c11Case{Sys: &c}))
				n++
			}
			if ctx.Tier == "thorough" {
				c := s
				c.K, c.Errno, c.Short = k, 5, true
				cases = append(cases, core.J(c11Case{Sys: &c}))
			}
		}
	}
	// a compaction whose input went bad on disk after it was loaded: the cycle must fail, or whatever it installs must
	// still read as the reference
	{
		small := sess.Cfg{Mem: 1 << 20, Thresh: 1, Ratio: 1.0, RBuf: 4096, WBuf: 16}
		ops := []sess.Op{{Op: "put", K: "a", V: "x"}, {Op: "put", K: "b", V: "I80"}, {Op: "rotwait"}, {Op: "put", K: "a", V: "y"}, {Op: "rotwait"}, {Op: "put", K: "c", V: "x"}, {Op: "rotwait"},
			{Op: "corrupt"}, {Op: "compact"}, {Op: "get", K: "a"}, {Op: "get", K: "b"}, {Op: "get", K: "c"}, {Op: "close"}}
		cases = append(cases, core.J(c11Case{Sys: &c11Sys{Name: "compaction-of-a-damaged-input", Sess: mkDBSession(small, ops...), K: -1, Damage: true}}))
	}
	ctx.Ev.Bounds["system_half_runs"] = len(cases)
	ctx.Ev.Notes = append(ctx.Ev.Notes, "system half: a session with flushes, one with flushes + a compaction, and one whose second Open flushes a WAL left behind by an abandoned handle (fault on the calls of that Open) run in a traced child (plus one session that flips a bit in an input table before a compaction cycle); the k-th mutating system call of the flusher/compactor classes (write, open-with-create, mkdir, unlink, rename) is replaced by -EIO / -ENOSPC (thorough: also short writes), for every k; the process must stop, or the failing API call must return an error; afterwards a fresh process must recover the directory to the reference of acknowledged operations (an incomplete table or compaction is never installed over good data); a process that neither stops nor reports (all threads parked) is classified as absorbed")
	rs := ctx.Pmap(cases)
	ctx.Fold(rs, cases)
	for i, r := range rs {
		if r.Died {
			ctx.Report(core.Violation{Desc: "worker died: " + r.DiedMsg, Case: cases[i]})
		}
	}
	return nil
}

func (c c11) sysCase(w *core.WCtx, cs *c11Sys) core.Result {
	var r core.Result
	r.Extra = map[string]int64{}
	if cs.Damage {
		return c.damageCase(w, cs)
	}
	dir := w.Dir()
	dbdir := filepath.Join(dir, "db")
	mustMkdir(dbdir)
	sp := writeSession(dir, cs.Sess)
	tr := ktrace.Run(ktrace.Options{Dir: dbdir, Argv: []string{binPath("vchild"), "run", dbdir, sp},
		Fault: &ktrace.Fault{Classes: classesOr(cs.Classes, []string{"flusher", "compactor"}), AfterMarker: cs.After, K: cs.K, Errno: cs.Errno, Short: cs.Short}, HangAfter: 10 * time.Second})
	name := fmt.Sprintf("session %s [%s] fault k=%d errno=%d short=%v", cs.Name, sessStr(cs.Sess), cs.K, cs.Errno, cs.Short)
	viol := func(sig, f string, a ...any) {
		if len(r.Viol) < 4 {
			r.Viol = append(r.Viol, core.Violation{Sig: sig, Desc: name + ": " + fmt.Sprintf(f, a...), Case: core.J(c11Case{Sys: cs})})
		}
	}
	if tr.Err != nil {
		viol("", "tracer: %v", tr.Err)
		return r
	}
	var failed *ktrace.Event
	for i := range tr.Events {
		if tr.Events[i].Failed {
			failed = &tr.Events[i]
		}
	}
	if failed == nil {
		r.Outcome = "fault position beyond the last call"
		return r
	}
	r.Traces++
	r.Trans = int64(len(tr.Events))
	r.Key = core.HashKey(name)
	what := fmt.Sprintf("%s %s by %s", failed.Nr, fileKind(failed.Path), failed.Class)
	apiFailed := false
	for _, e := range tr.Events {
		if e.Kind == "marker" && strings.HasPrefix(e.Marker, "FAIL ") {
			apiFailed = true
		}
	}
	outcome := ""
	switch {
	case tr.Hung:
		outcome = "absorbed: process neither stopped nor reported (all threads parked)"
		viol("D17-panic-swallowed-by-deferred-send", "injected failure of %s: the error is logged but the process neither stops nor returns an error; the pending client call never returns", what)
	case apiFailed:
		outcome = "API call returned an error"
	case tr.ExitCode != 0 || tr.Signaled:
		outcome = "process stopped"
	default:
		outcome = "session completed"
	}
	r.Extra["outcome: "+outcome]++
	r.Evals++
	// whatever happened: the directory must recover to the acknowledged operations
	sits := situations(tr)
	final := sits[len(sits)-1]
	d, exit, stderr, err := recoverImage(tr, tr.Images[tr.FinalImage], filepath.Join(dir, "rec"), crashKeys)
	r.Evals++
	switch {
	case err != nil:
		viol("", "harness: %v", err)
	case exit != 0:
		viol("", "after the injected failure of %s (%s) the directory cannot be recovered: exit %d %s", what, outcome, exit, stderr)
	case d.OpenErr != "":
		// A later Open that fails is itself a report, not absorbed damage: the statement only forbids reporting success
		// for a wrong output. For a compaction it additionally demands that an incomplete output never replaces its
		// inputs, so there the directory must stay recoverable.
		if failed.Class == "compactor" {
			viol("", "after the injected failure of %s (%s) during a compaction Open fails: %s", what, outcome, d.OpenErr)
		} else {
			r.Extra["after the fault the next Open reports the broken table (accepted: reported, not absorbed)"]++
			// look through the broken leftover: a flush that failed must not have been treated as done, i.e. the WAL
			// of that memstore must still be there. Remove the table directory Open complains about (newest first)
			// and recover again: now the acknowledged operations must all be readable.
			rdir := filepath.Join(dir, "rec")
			for attempt := 0; attempt < 3 && d.OpenErr != ""; attempt++ {
				removeAll(rdir)
				tr.Materialize(tr.Images[tr.FinalImage], rdir)
				tabs, _ := filepath.Glob(filepath.Join(rdir, "sstable_0*"))
				sort.Strings(tabs)
				for i := 0; i <= attempt && i < len(tabs); i++ {
					removeAll(tabs[len(tabs)-1-i])
				}
				d, exit, stderr, err = runRecover(rdir, crashKeys)
				if err != nil || exit != 0 {
					break
				}
			}
			r.Evals++
			if err == nil && exit == 0 && d.OpenErr == "" {
				ok, wants := c02{"C02"}.acceptable(c02Case{Mode: "sync", Sess: cs.Sess}, final, dumpMap(d))
				if !ok {
					viol("", "after the injected failure of %s (%s; acked %v in flight %v) and removal of the broken table left behind, the directory recovers to %s, acceptable: %s - the failed flush was treated as done (its WAL is gone)", what, outcome, final.Acked, final.Inflight, mapStr(dumpMap(d)), strings.Join(wants, " or "))
				}
			}
		}
	default:
		ok, wants := c02{"C02"}.acceptable(c02Case{Mode: "sync", Sess: cs.Sess}, final, dumpMap(d))
		if !ok {
			viol("", "after the injected failure of %s (%s; acked %v in flight %v) the directory recovers to %s, acceptable: %s", what, outcome, final.Acked, final.Inflight, mapStr(dumpMap(d)), strings.Join(wants, " or "))
		}
	}
	r.Outcome = "sys " + outcome
	if cs.K == 9 && cs.Errno == 5 && cs.Name == "flush" {
		r.Sample = string(core.J(map[string]any{"kind": "syscall fault", "session": sessStr(cs.Sess), "failed_call": what, "outcome": outcome}))
	}
	return r
}

// damageCase: the session damages the oldest table on disk and then runs a compaction cycle over it.
func (c c11) damageCase(w *core.WCtx, cs *c11Sys) core.Result {
	var r core.Result
	r.Extra = map[string]int64{}
	dir := w.Dir()
	dbdir := filepath.Join(dir, "db")
	mustMkdir(dbdir)
	sp := writeSession(dir, cs.Sess)
	tr := ktrace.Run(ktrace.Options{Dir: dbdir, Argv: []string{binPath("vchild"), "run", dbdir, sp}, HangAfter: 10 * time.Second, NoImages: true})
	name := fmt.Sprintf("session %s [%s]", cs.Name, sessStr(cs.Sess))
	viol := func(f string, a ...any) {
		r.Viol = append(r.Viol, core.Violation{Desc: name + ": " + fmt.Sprintf(f, a...), Case: core.J(c11Case{Sys: cs})})
	}
	if tr.Err != nil {
		viol("tracer: %v", tr.Err)
		return r
	}
	r.Traces++
	r.Key = core.HashKey(name)
	ref := map[string]string{}
	reported := false
	for _, e := range tr.Events {
		if e.Kind != "marker" {
			continue
		}
		var i int
		switch {
		case strings.HasPrefix(e.Marker, "A "):
			fmt.Sscanf(e.Marker, "A %d", &i)
			if op := cs.Sess.Ops[i]; op.Op == "put" {
				ref[op.K] = dumpEncode(sess.Value(op.V))
			} else if op.Op == "del" {
				delete(ref, op.K)
			}
		case strings.HasPrefix(e.Marker, "FAIL "):
			reported = true
		case strings.HasPrefix(e.Marker, "G "):
			parts := strings.SplitN(e.Marker, " ", 3)
			fmt.Sscan(parts[1], &i)
			want, ok := ref[cs.Sess.Ops[i].K]
			r.Evals++
			if (!ok && parts[2] != "-") || (ok && parts[2] != "="+want) {
				viol("the compaction cycle over the damaged table reported success, afterwards Get(%s) reads %q, written %q", cs.Sess.Ops[i].K, parts[2], want)
			}
		}
	}
	switch {
	case tr.Hung:
		viol("the process neither stopped nor returned after the damaged input was compacted")
	case reported || tr.ExitCode != 0 || tr.Signaled:
		r.Extra["outcome: damaged input reported by the compaction cycle"]++
	default:
		r.Extra["outcome: compaction over the damaged table succeeded and reads are intact"]++
	}
	r.Outcome = "sys damage"
	return r
}
