package checks

import (
	"encoding/hex"
	"encoding/json"
	"fmt"
	"path/filepath"
	"strings"

	"verif/internal/core"
	"verif/internal/ktrace"
	"verif/internal/sess"
)

// Crash half of C07: every system-call boundary of the appending process; replay of each image must succeed
// and deliver a prefix of the appended sequence containing every record whose synchronous append had returned;
// each synchronous append must have written and fsynced its record before returning (trace predicate).

type c07Crash struct {
	Sess sess.Session `json:"sess"`
}

func walCrashAlphabet() []sess.Op {
	var ops []sess.Op
	// 17 and 20 bytes: records just above the 16-byte write buffer, whose tail stays buffered after the header went out
	for _, v := range []string{"a", "I10", "I17", "I20", "I100"} {
		ops = append(ops, sess.Op{Op: "append", V: v}, sess.Op{Op: "appendsync", V: v})
	}
	return append(ops, sess.Op{Op: "walrotate"})
}

func c07CrashHalf(ctx *core.Ctx) error {
	maxLen := 2
	if ctx.Tier == "thorough" {
		maxLen = 3
	}
	var cases []json.RawMessage
	for _, p := range progs(walCrashAlphabet(), maxLen) {
		for _, max := range []uint64{24, 64, 0} {
			ops := append(append([]sess.Op{}, p...), sess.Op{Op: "walclose"})
			cases = append(cases, core.J(c07Case{Crash: &c07Crash{Sess: sess.Session{Kind: "wal", Ops: ops, WalMax: max, WalBuf: 16}}}))
		}
	}
	ctx.Ev.Bounds["crash_half_sessions"] = len(cases)
	ctx.Ev.Bounds["crash_half_max_program_length"] = maxLen
	ctx.Ev.Notes = append(ctx.Ev.Notes, "crash half: every program of Append/AppendSync/Rotate up to the bound over records of 1, 10, 17, 20 and 100 bytes x size limits {24, 64, default} with a 16-byte write buffer runs in a traced child; at every boundary between two mutating system calls the directory image is replayed by a fresh process; for every synchronous append the trace must show write(s) to the current log file followed by an fsync of it, with no later write, before the call returns")
	rs := ctx.Pmap(cases)
	ctx.Fold(rs, cases)
	for i, r := range rs {
		if r.Died {
			ctx.Report(core.Violation{Desc: "worker died: " + r.DiedMsg, Case: cases[i]})
		}
	}
	return nil
}

func walDumpEncode(rec []byte) string {
	if len(rec) > 32 {
		return fmt.Sprintf("#%d:%s", len(rec), hashHex(rec))
	}
	return hex.EncodeToString(rec)
}

func (c c07) crashCase(w *core.WCtx, cc *c07Crash) core.Result {
	var r core.Result
	r.Extra = map[string]int64{}
	dir := w.Dir()
	wdir := filepath.Join(dir, "wal")
	mustMkdir(wdir)
	sp := writeSession(dir, cc.Sess)
	tr := ktrace.Run(ktrace.Options{Dir: wdir, Argv: []string{binPath("vchild"), "run", wdir, sp}})
	name := fmt.Sprintf("wal session [%s] max=%d", sessStr(cc.Sess), cc.Sess.WalMax)
	viol := func(f string, a ...any) {
		if len(r.Viol) < 6 {
			r.Viol = append(r.Viol, core.Violation{Desc: name + ": " + fmt.Sprintf(f, a...), Case: core.J(c07Case{Crash: cc})})
		}
	}
	if tr.Err != nil || tr.ExitCode != 0 {
		viol("session failed: %v exit %d", tr.Err, tr.ExitCode)
		return r
	}
	r.Trans = int64(len(tr.Events))
	// trace predicate for synchronous appends
	for i, op := range cc.Sess.Ops {
		if op.Op != "appendsync" {
			continue
		}
		r.Evals++
		in := false
		var wrote, synced map[string]bool
		ok := false
		for _, e := range tr.Events {
			switch {
			case e.Kind == "marker" && e.Marker == fmt.Sprintf("B %d", i):
				in, wrote, synced = true, map[string]bool{}, map[string]bool{}
			case e.Kind == "marker" && e.Marker == fmt.Sprintf("A %d", i):
				in = false
				for p := range wrote {
					if synced[p] {
						ok = true
					}
				}
				// the file that received the record's last write must be synced after it
				for p := range wrote {
					if !synced[p] && p == lastWritten(tr, i) {
						ok = false
					}
				}
			case in && e.Kind == "call" && e.Nr == "write":
				wrote[e.Path] = true
				synced[e.Path] = false
			case in && e.Kind == "sync":
				synced[e.Path] = true
			}
		}
		if !ok {
			viol("synchronous append (op %d) returned without a write to the log file followed by an fsync of it", i)
		}
	}
	// crash images
	sits := situations(tr)
	byImg := map[int][]crashSituation{}
	for _, s := range sits {
		byImg[s.Image] = append(byImg[s.Image], s)
	}
	rdir := filepath.Join(dir, "rec")
	for img := range tr.Images {
		ss := byImg[img]
		if len(ss) == 0 {
			continue
		}
		removeAll(rdir)
		if err := tr.Materialize(tr.Images[img], rdir); err != nil {
			viol("harness: %v", err)
			continue
		}
		mustMkdir(rdir)
		d, exit, stderr, err := runChildDump(binPath("vchild"), "walreplay", rdir)
		r.Traces++
		for _, s := range ss {
			r.Evals++
			if len(s.Acked) > 0 {
				r.Keys = append(r.Keys, core.HashKey(name, tr.Images[img].Hash, fmt.Sprint(s.Acked, s.Inflight)))
			}
			if err != nil || exit != 0 {
				viol("image %d (%s): replay process failed: %v exit %d %s", img, s.Desc, err, exit, stderr)
				break
			}
			if d.OpenErr != "" {
				viol("image %d (%s; acked %v): replay failed: %s", img, s.Desc, s.Acked, d.OpenErr)
				break
			}
			// begun appends in order
			var begun []int
			for i, op := range cc.Sess.Ops {
				if op.Op == "append" || op.Op == "appendsync" {
					for _, x := range append(append([]int{}, s.Acked...), s.Inflight...) {
						if x == i {
							begun = append(begun, i)
						}
					}
				}
			}
			minLen := 0
			for pos, i := range begun {
				acked := false
				for _, x := range s.Acked {
					acked = acked || x == i
				}
				if acked && cc.Sess.Ops[i].Op == "appendsync" {
					minLen = pos + 1
				}
			}
			okPrefix := len(d.Records) <= len(begun) && len(d.Records) >= minLen
			if okPrefix {
				for k, rec := range d.Records {
					if rec != walDumpEncode(sess.Value(cc.Sess.Ops[begun[k]].V)) {
						okPrefix = false
					}
				}
			}
			if !okPrefix {
				viol("image %d (%s; acked %v in flight %v): replay delivered %d records %v; must be a prefix of the %d begun appends containing at least the first %d (acknowledged synchronous appends)", img, s.Desc, s.Acked, s.Inflight, len(d.Records), shorten(d.Records), len(begun), minLen)
			}
		}
	}
	r.Outcome = fmt.Sprintf("crash ok=%v", len(r.Viol) == 0)
	if len(cc.Sess.Ops) == 3 && cc.Sess.Ops[0].Op == "appendsync" && cc.Sess.Ops[1].Op == "append" && cc.Sess.WalMax == 24 && cc.Sess.Ops[0].V == "I10" {
		r.Sample = string(core.J(map[string]any{"kind": "wal crash session", "session": sessStr(cc.Sess), "max_file_size": 24, "images": len(tr.Images)}))
	}
	return r
}

func shorten(s []string) []string {
	var out []string
	for _, x := range s {
		if len(x) > 12 {
			x = x[:12] + ".."
		}
		out = append(out, x)
	}
	return out
}

// lastWritten returns the path that received the last write between the markers of op i.
func lastWritten(tr *ktrace.Trace, i int) string {
	in := false
	last := ""
	for _, e := range tr.Events {
		switch {
		case e.Kind == "marker" && e.Marker == fmt.Sprintf("B %d", i):
			in = true
		case e.Kind == "marker" && e.Marker == fmt.Sprintf("A %d", i):
			in = false
		case in && e.Kind == "call" && e.Nr == "write" && strings.HasSuffix(e.Path, ".wal"):
			last = e.Path
		}
	}
	return last
}
