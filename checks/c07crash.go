package checks

import "verif/internal/core"

// c07CrashHalf is filled in by the E3 engine (ktrace); until then it only records that it did not run.
var c07CrashHalf = func(ctx *core.Ctx) error {
	ctx.Ev.Notes = append(ctx.Ev.Notes, "crash half not run in this build")
	return nil
}
