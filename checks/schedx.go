package checks

import (
	"encoding/json"
	"fmt"
	"os"
	"path/filepath"
	"sort"
	"strings"

	"verif/internal/core"
	"verif/shim/vsched"
)

// E2 explorer: stateless depth-first enumeration of schedules with a preemption
// bound (iterative context bounding). A scenario provides run(prefix) which
// executes the real code once under vsched following the choice prefix.

type schedExec struct {
	Choices  []vsched.Choice
	Problems []string // oracle failures of this execution
	Outcome  string   // canonical observable outcome (history class)
	Ops      int
}

type schedScenario interface {
	Name() string
	Exec(w *core.WCtx, prefix []int) schedExec
	Bound(tier string) int
}

type schedCase struct {
	Scenario string `json:"scenario"`
	Prefix   []int  `json:"prefix"`
	Bound    int    `json:"bound"`
	// Root: only execute the prefix itself (the subtree is dealt out as separate cases)
	Root   bool `json:"root,omitempty"`
	Replay bool `json:"replay,omitempty"` // run exactly this prefix once
}

func picked(ch []vsched.Choice) []int {
	out := make([]int, len(ch))
	for i, c := range ch {
		out[i] = int(c.Picked)
	}
	return out
}

// preemptions counts the choices that switched away from a thread that could have continued.
func preemptions(ch []vsched.Choice, upto int) int {
	n := 0
	for i := 0; i < upto && i < len(ch); i++ {
		if ch[i].Picked != 0 && ch[i].RunningEnabled {
			n++
		}
	}
	return n
}

// children lists the one-deviation extensions of an execution within the bound.
func children(x schedExec, prefixLen, bound int) [][]int {
	var out [][]int
	taken := picked(x.Choices)
	for i := prefixLen; i < len(x.Choices); i++ {
		p := x.Choices[i]
		cost := preemptions(x.Choices, i)
		if p.RunningEnabled {
			cost++
		}
		if cost > bound {
			continue
		}
		for alt := 1; alt < int(p.N); alt++ {
			out = append(out, append(append([]int{}, taken[:i]...), alt))
		}
	}
	return out
}

type schedStats struct {
	execs    int64
	points   int64
	outcomes map[string]int64
	viol     []core.Violation
	preHist  [8]int64
}

func writeCurrent(w *core.WCtx, scn string, prefix []int) {
	os.WriteFile(filepath.Join(w.Scratch, "current.json"), core.J(schedCase{Scenario: scn, Prefix: prefix, Replay: true}), 0o644)
}

// exploreSubtree runs the DFS below prefix.
func exploreSubtree(w *core.WCtx, scn schedScenario, prefix []int, bound int, st *schedStats, rootOnly bool) {
	var rec func(prefix []int)
	rec = func(prefix []int) {
		writeCurrent(w, scn.Name(), prefix)
		x := scn.Exec(w, prefix)
		st.execs++
		if st.execs%200 == 0 {
			fmt.Println("H") // heartbeat for the parent's watchdog: a long subtree is not a hang
		}
		st.points += int64(len(x.Choices))
		st.outcomes[x.Outcome]++
		if p := preemptions(x.Choices, len(x.Choices)); p < len(st.preHist) {
			st.preHist[p]++
		}
		for _, pr := range x.Problems {
			if len(st.viol) < 5 {
				st.viol = append(st.viol, core.Violation{Desc: fmt.Sprintf("scenario %s, schedule %v (%d preemptions): %s", scn.Name(), trimZeros(picked(x.Choices)), preemptions(x.Choices, len(x.Choices)), pr),
					Case: core.J(schedCase{Scenario: scn.Name(), Prefix: trimZeros(picked(x.Choices)), Replay: true})})
			}
		}
		if rootOnly {
			return
		}
		for _, ch := range children(x, len(prefix), bound) {
			if len(st.viol) >= 5 {
				return
			}
			rec(ch)
		}
	}
	rec(prefix)
}

func trimZeros(p []int) []int {
	n := len(p)
	for n > 0 && p[n-1] == 0 {
		n--
	}
	return append([]int{}, p[:n]...)
}

// runSchedCheck is the parent side: root execution, then one case per first deviation.
func runSchedCheck(ctx *core.Ctx, scenarios []schedScenario, caseOf func(schedCase) json.RawMessage) {
	bounds := map[string]int{}
	for _, s := range scenarios {
		bounds[s.Name()] = s.Bound(ctx.Tier)
	}
	ctx.Ev.Bounds["preemption_bound_per_scenario"] = bounds
	var cases []json.RawMessage
	// level 0: root executions are done by workers too (the parent never runs scenario code)
	for _, s := range scenarios {
		cases = append(cases, caseOf(schedCase{Scenario: s.Name(), Bound: s.Bound(ctx.Tier), Root: true}))
	}
	// two expansion levels (each expansion executes its prefix once and returns the one-deviation extensions),
	// then one case per second-level subtree: keeps the 16 workers evenly loaded
	level := cases
	for depth := 0; depth < 2; depth++ {
		rs := ctx.Pmap(level)
		ctx.Fold(rs, level)
		var next []json.RawMessage
		for i, r := range rs {
			if r.Died {
				reportSchedDeath(ctx, r, level[i])
				continue
			}
			var kids [][]int
			json.Unmarshal(r.Out, &kids)
			var sc schedCase
			json.Unmarshal(scenarioOf(level[i]), &sc)
			for _, k := range kids {
				next = append(next, caseOf(schedCase{Scenario: sc.Scenario, Prefix: k, Bound: bounds[sc.Scenario], Root: depth == 0}))
			}
		}
		ctx.Ev.Bounds[fmt.Sprintf("subtrees_at_level_%d", depth+1)] = len(next)
		level = next
	}
	rs := ctx.Pmap(level)
	ctx.Fold(rs, level)
	for i, r := range rs {
		if r.Died {
			reportSchedDeath(ctx, r, level[i])
		}
	}
}

// scenarioOf extracts the embedded schedCase of a check-specific payload ({"sched": {...}}).
func scenarioOf(payload json.RawMessage) json.RawMessage {
	var wrap struct {
		Sched json.RawMessage `json:"sched"`
	}
	json.Unmarshal(payload, &wrap)
	return wrap.Sched
}

func reportSchedDeath(ctx *core.Ctx, r core.Result, payload json.RawMessage) {
	desc := "worker died while executing a schedule"
	sig := ""
	switch {
	case strings.Contains(r.DiedMsg, "WARNING: DATA RACE"):
		desc = "data race reported by the Go race detector on an enumerated schedule"
	case strings.Contains(r.DiedMsg, "FATAL deadlock"):
		desc = "deadlock: no thread enabled although not all have finished"
	case strings.Contains(r.DiedMsg, "FATAL diverged"):
		fmt.Fprintf(os.Stderr, "HARNESS-ERROR: schedule replay diverged: %s\n", r.DiedMsg)
		os.Exit(2)
	case r.Hung:
		desc = "execution hung (a managed goroutine blocked on something the scheduler does not know)"
	}
	c := payload
	if r.DiedState != "" {
		var sc schedCase
		if json.Unmarshal([]byte(r.DiedState), &sc) == nil {
			var wrap map[string]json.RawMessage
			json.Unmarshal(payload, &wrap)
			if wrap == nil {
				wrap = map[string]json.RawMessage{}
			}
			wrap["sched"] = core.J(sc)
			c = core.J(wrap)
			desc += fmt.Sprintf(" [scenario %s schedule %v]", sc.Scenario, sc.Prefix)
		}
	}
	ctx.Report(core.Violation{Sig: sig, Desc: desc + ": " + tail(r.DiedMsg, 2500), Case: c})
}

// schedWorker executes one schedCase and fills a Result.
func schedWorker(w *core.WCtx, scn schedScenario, sc schedCase) core.Result {
	var r core.Result
	vsched.OnFatal = func(kind string, s *vsched.Sched) {
		info := ""
		for _, d := range s.DeadInfo {
			if d != "" {
				info += d + "; "
			}
		}
		fmt.Fprintf(os.Stderr, "FATAL %s in scenario %s: %s\n", kind, scn.Name(), info)
		os.Exit(77)
	}
	st := &schedStats{outcomes: map[string]int64{}}
	if sc.Replay {
		exploreSubtree(w, scn, sc.Prefix, 0, st, true)
	} else if sc.Root {
		writeCurrent(w, scn.Name(), sc.Prefix)
		x := scn.Exec(w, sc.Prefix)
		st.execs, st.points = 1, int64(len(x.Choices))
		st.outcomes[x.Outcome]++
		for _, pr := range x.Problems {
			st.viol = append(st.viol, core.Violation{Desc: fmt.Sprintf("scenario %s, schedule %v: %s", scn.Name(), sc.Prefix, pr), Case: core.J(schedCase{Scenario: scn.Name(), Prefix: sc.Prefix, Replay: true})})
		}
		if len(x.Choices) == 0 {
			st.viol = append(st.viol, core.Violation{Desc: "harness: the execution had no scheduling decision at all - is the instrumented build in use?"})
		}
		r.Out = core.J(children(x, len(sc.Prefix), sc.Bound))
	} else {
		exploreSubtree(w, scn, sc.Prefix, sc.Bound, st, false)
	}
	r.Traces = st.execs
	r.Trans = st.points
	r.Evals = st.execs
	r.Viol = st.viol
	var outs []string
	for o := range st.outcomes {
		outs = append(outs, o)
		r.Keys = append(r.Keys, core.HashKey(scn.Name(), o))
	}
	sort.Strings(outs)
	r.Outcome = scn.Name()
	r.Extra = map[string]int64{"executions_" + scn.Name(): st.execs}
	for p, n := range st.preHist {
		if n > 0 {
			r.Extra[fmt.Sprintf("executions_with_%d_preemptions", p)] += n
		}
	}
	if sc.Root && len(sc.Prefix) == 0 {
		r.Sample = string(core.J(map[string]any{"scenario": scn.Name(), "scheduling_points_default_schedule": st.points, "default_outcome": outs}))
	}
	return r
}
