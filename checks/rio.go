package checks

import (
	"bytes"
	"errors"
	"fmt"
	"io"
	"os"
	"path/filepath"

	"github.com/thomasjungblut/go-sstables/recordio"
)

// Shared RecordIO generator for C04, C12 and C20: a tiny record alphabet chosen
// from the shortcuts visible in the code (marker bytes 91 8d 4c, nil vs empty,
// a payload that makes a trial read overflow a varint, a record longer than the
// 4096-byte scan window).

var marker = []byte{0x91, 0x8d, 0x4c}

type rioRec struct {
	Name string
	Data []byte // nil = nil record
}

func incompressible(n int, seed uint64) []byte {
	b := make([]byte, n)
	s := seed*2862933555777941757 + 3037000493
	for i := range b {
		s ^= s << 13
		s ^= s >> 7
		s ^= s << 17
		c := byte(s >> 24)
		if c == 0x91 { // no accidental marker starts
			c = 0x92
		}
		b[i] = c
	}
	return b
}

func rioAlphabet() []rioRec {
	big := incompressible(4200, 7)
	copy(big[4075:], marker) // a marker deep inside a payload that spans a scan window
	copy(big[100:], []byte{0x91, 0x8d})
	overflow := append(append([]byte{}, marker...), 0x00)
	for i := 0; i < 10; i++ {
		overflow = append(overflow, 0xff)
	}
	return []rioRec{
		{"nil", nil},
		{"empty", []byte{}},
		{"a", []byte("a")},
		{"91", []byte{0x91}},
		{"918d", []byte{0x91, 0x8d}},
		{"marker", append([]byte{}, marker...)},
		{"x91", []byte{'x', 0x91}},
		{"x918d", []byte{'x', 0x91, 0x8d}},
		{"mk00ff", overflow},
		{"00ab", []byte{0x00, 'a', 'b'}},
		{"80ab", []byte{0x80, 'a', 'b'}},
		{"z40", make([]byte, 40)}, // all zero: indistinguishable from block padding if it lingers behind the end
		{"big", big},
	}
}

func rioRecIndex(name string) int {
	for i, r := range rioAlphabet() {
		if r.Name == name {
			return i
		}
	}
	panic("no record " + name)
}

// writer program op: W = Write(rec), S = WriteSync(rec), K = Seek(to surviving boundary j)
type wop struct {
	Op  string `json:"op"`
	Arg int    `json:"arg"`
}

type rioCfg struct {
	Comp   int  `json:"comp"`
	WBuf   int  `json:"wbuf"`
	RBuf   int  `json:"rbuf"`
	Direct bool `json:"direct,omitempty"`
}

type rioModel struct {
	Recs [][]byte
	Offs []uint64
	Size uint64
}

// rioWrite executes a writer program on a fresh file and returns the list model.
// Every writer call is compared with the model on the way (offsets, Size()).
func rioWrite(path string, prog []wop, cfg rioCfg, alpha []rioRec) (m rioModel, bad []string, err error) {
	opts := []recordio.FileWriterOption{recordio.Path(path), recordio.CompressionType(cfg.Comp), recordio.BufferSizeBytes(cfg.WBuf)}
	if cfg.Direct {
		opts = append(opts, recordio.DirectIO())
	}
	w, err := recordio.NewFileWriter(opts...)
	if err != nil {
		return m, nil, err
	}
	if err = w.Open(); err != nil {
		return m, nil, err
	}
	if w.Size() != recordio.FileHeaderSizeBytes {
		bad = append(bad, fmt.Sprintf("Size() after Open = %d", w.Size()))
	}
	for i, op := range prog {
		switch op.Op {
		case "W", "S":
			rec := alpha[op.Arg].Data
			before := w.Size()
			var off uint64
			if op.Op == "W" {
				off, err = w.Write(rec)
			} else {
				off, err = w.WriteSync(rec)
			}
			if err != nil {
				w.Close()
				return m, bad, fmt.Errorf("op %d %v: %w", i, op, err)
			}
			if off != before {
				bad = append(bad, fmt.Sprintf("op %d: returned offset %d but Size() before was %d", i, off, before))
			}
			if w.Size() <= off {
				bad = append(bad, fmt.Sprintf("op %d: Size() %d not beyond offset %d", i, w.Size(), off))
			}
			m.Recs = append(m.Recs, rec)
			m.Offs = append(m.Offs, off)
		case "K":
			var target uint64
			if op.Arg < len(m.Offs) {
				target = m.Offs[op.Arg]
			} else {
				target = w.Size()
			}
			if err = w.Seek(target); err != nil {
				w.Close()
				return m, bad, fmt.Errorf("op %d seek(%d): %w", i, target, err)
			}
			if op.Arg < len(m.Offs) {
				m.Recs = m.Recs[:op.Arg]
				m.Offs = m.Offs[:op.Arg]
			}
			if w.Size() != target {
				bad = append(bad, fmt.Sprintf("op %d: Size() after Seek(%d) = %d", i, target, w.Size()))
			}
		}
	}
	m.Size = w.Size()
	if err = w.Close(); err != nil {
		return m, bad, fmt.Errorf("close: %w", err)
	}
	if !cfg.Direct {
		st, e := os.Stat(path)
		if e != nil || uint64(st.Size()) != m.Size {
			bad = append(bad, fmt.Sprintf("file size on disk %v differs from writer Size() %d", st.Size(), m.Size))
		}
	}
	return m, bad, nil
}

func recEq(a, b []byte) bool { return (a == nil) == (b == nil) && bytes.Equal(a, b) }

func recStr(b []byte) string {
	if b == nil {
		return "<nil>"
	}
	if len(b) > 12 {
		return fmt.Sprintf("%x..(%d bytes)", b[:8], len(b))
	}
	return fmt.Sprintf("%x", b)
}

func openSeq(path string, rbuf int) (recordio.ReaderI, error) {
	r, err := recordio.NewFileReader(recordio.ReaderPath(path), recordio.ReaderBufferSizeBytes(rbuf))
	if err != nil {
		return nil, err
	}
	if err := r.Open(); err != nil {
		r.Close()
		return nil, err
	}
	return r, nil
}

// rioSeqWord runs one word over {R,S} against the model. Returns a mismatch or "".
func rioSeqWord(path string, rbuf int, m rioModel, word uint, n int) (msg string) {
	r, err := openSeq(path, rbuf)
	if err != nil {
		return "open sequential reader: " + err.Error()
	}
	defer r.Close()
	// records are kept as they were handed out and looked at once more at the end: a record belongs to the caller once
	// ReadNext has returned it, later calls must not change it
	var kept [][]byte
	var keptIdx []int
	defer func() {
		if msg != "" {
			return
		}
		for j, g := range kept {
			if !recEq(g, m.Recs[keptIdx[j]]) {
				msg = fmt.Sprintf("record #%d as returned by ReadNext changed after later calls: now %s, written %s", keptIdx[j], recStr(g), recStr(m.Recs[keptIdx[j]]))
				return
			}
		}
	}()
	for i := 0; i < n; i++ {
		skip := word&(1<<uint(i)) != 0
		if i < len(m.Recs) {
			if skip {
				if err := r.SkipNext(); err != nil {
					return fmt.Sprintf("SkipNext #%d (record %s) failed: %v", i, recStr(m.Recs[i]), err)
				}
			} else {
				got, err := r.ReadNext()
				if err != nil {
					return fmt.Sprintf("ReadNext #%d failed: %v (want %s)", i, err, recStr(m.Recs[i]))
				}
				if !recEq(got, m.Recs[i]) {
					return fmt.Sprintf("ReadNext #%d = %s want %s", i, recStr(got), recStr(m.Recs[i]))
				}
				kept, keptIdx = append(kept, got), append(keptIdx, i)
			}
		} else {
			if skip {
				err := r.SkipNext()
				if !errors.Is(err, io.EOF) {
					return fmt.Sprintf("SkipNext at end = %v want EOF", err)
				}
			} else {
				got, err := r.ReadNext()
				if !errors.Is(err, io.EOF) {
					return fmt.Sprintf("ReadNext at end = %s,%v want EOF", recStr(got), err)
				}
			}
		}
	}
	return ""
}

func wordStr(word uint, n int) string {
	s := ""
	for i := 0; i < n; i++ {
		if word&(1<<uint(i)) != 0 {
			s += "S"
		} else {
			s += "R"
		}
	}
	return s
}

func tmpFile(dir, name string) string { return filepath.Join(dir, name) }

func readAll(path string) []byte {
	b, err := os.ReadFile(path)
	if err != nil {
		panic(err)
	}
	return b
}

func mustMkdir(d string) {
	if err := os.MkdirAll(d, 0o755); err != nil {
		panic(err)
	}
}

func removeAll(d string) { os.RemoveAll(d) }
