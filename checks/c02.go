package checks

import (
	"encoding/json"
	"fmt"
	"path/filepath"
	"strings"

	"verif/internal/core"
	"verif/internal/ktrace"
	"verif/internal/sess"
)

// C02: acknowledged writes survive a process kill at any instant (synchronous WAL).
// C13 (asynchronous WAL) uses the same machinery with a prefix oracle.

type c02 struct{ id string }

func init() {
	core.Register(c02{"C02"})
	core.Register(c02{"C13"})
}
func (c c02) ID() string { return c.id }

type c02Case struct {
	Name string       `json:"name"`
	Sess sess.Session `json:"sess"`
	Hold *ktrace.Hold `json:"hold,omitempty"`
	Mode string       `json:"mode"` // "sync" | "async"
	Only *int         `json:"only_image,omitempty"`
	// Tail: only the crash points after the session's "TAIL" marker are examined (long sessions whose beginning is
	// ordinary and covered elsewhere)
	Tail bool `json:"tail,omitempty"`
}

var crashKeys = []string{"a", "b", "c"}

func c02Alphabet() []sess.Op {
	return []sess.Op{
		{Op: "put", K: "a", V: "I80"},
		{Op: "put", K: "b", V: "x"},
		{Op: "del", K: "a"},
		{Op: "put", K: "a", V: "y"},
	}
}

func mkDBSession(cfg sess.Cfg, ops ...sess.Op) sess.Session {
	c := cfg
	all := append([]sess.Op{{Op: "open", Cfg: &c}}, ops...)
	return sess.Session{Kind: "db", Ops: all}
}

// walNumbersSession: nine forced rotations (WAL file numbers reach 9), then one key is overwritten until the WAL file of
// that memstore generation has rotated by size (limit = 100 x the 400-byte memstore limit), a final value, a flush, Close.
func walNumbersSession(async bool) sess.Session {
	cfg := sess.Cfg{Mem: 400, Thresh: 100, Ratio: 1.0, RBuf: 4096, WBuf: 4096, Async: async}
	var ops []sess.Op
	for i := 0; i < 9; i++ {
		ops = append(ops, sess.Op{Op: "put", K: "b", V: []string{"x", "y", "z"}[i%3]}, sess.Op{Op: "rotwait"})
	}
	for i := 0; i < 230; i++ {
		ops = append(ops, sess.Op{Op: "put", K: "a", V: fmt.Sprintf("I%d", 200+i%7)})
	}
	ops = append(ops, sess.Op{Op: "mark", Text: "TAIL"}, sess.Op{Op: "put", K: "a", V: "w"}, sess.Op{Op: "rotwait"}, sess.Op{Op: "put", K: "c", V: "x"}, sess.Op{Op: "close"})
	return mkDBSession(cfg, ops...)
}

func progs(alpha []sess.Op, maxLen int) [][]sess.Op {
	out := [][]sess.Op{{}}
	prev := [][]sess.Op{{}}
	for l := 1; l <= maxLen; l++ {
		var next [][]sess.Op
		for _, p := range prev {
			for _, a := range alpha {
				next = append(next, append(append([]sess.Op{}, p...), a))
			}
		}
		out = append(out, next...)
		prev = next
	}
	return out
}

func (c c02) sessions(tier string) []c02Case {
	async := c.id == "C13"
	mode := "sync"
	if async {
		mode = "async"
	}
	small := sess.Cfg{Mem: 90, Thresh: 0, Ratio: 1.0, RBuf: 4096, WBuf: 16, Async: async}
	var out []c02Case
	maxLen := 2
	if tier == "thorough" {
		maxLen = 4
	}
	cl := sess.Op{Op: "close"}
	// (i) all short programs, every I80 write rotates, tiny write buffer, ending in Close
	for _, p := range progs(c02Alphabet(), maxLen) {
		out = append(out, c02Case{Name: "i", Mode: mode, Sess: mkDBSession(small, append(append([]sess.Op{}, p...), cl)...)})
	}
	if tier == "thorough" {
		// other buffer / memstore combinations: every operation rotates (1 B), tables written byte-wise (5 B buffer),
		// and a buffer larger than a table (the whole table goes out in Close)
		for _, cfg := range []sess.Cfg{
			{Mem: 1, Thresh: 0, Ratio: 1.0, RBuf: 7, WBuf: 5, Async: async},
			{Mem: 90, Thresh: 0, Ratio: 1.0, RBuf: 4096, WBuf: 4096, Async: async},
			{Mem: 200, Thresh: 1, Ratio: 0.5, RBuf: 16, WBuf: 64, Async: async},
		} {
			for _, p := range progs(c02Alphabet(), 3) {
				out = append(out, c02Case{Name: "i-cfg", Mode: mode, Sess: mkDBSession(cfg, append(append([]sess.Op{}, p...), cl)...)})
			}
		}
	}
	// (ii) compaction placements: after two flushed tables, and after close + reopen
	a := c02Alphabet()
	for _, tail := range progs(a[:3], 1) {
		ops := []sess.Op{a[0], {Op: "barrier"}, a[2], {Op: "rotwait"}, {Op: "compact"}}
		ops = append(ops, tail...)
		out = append(out, c02Case{Name: "ii-compact", Mode: mode, Sess: mkDBSession(small, append(ops, cl)...)})
	}
	{
		c2 := small
		ops := []sess.Op{a[0], a[1], {Op: "rotwait"}, cl, {Op: "open", Cfg: &c2}, a[2], {Op: "rotwait"}, {Op: "compact"}, a[3], cl}
		out = append(out, c02Case{Name: "ii-reopen-compact", Mode: mode, Sess: mkDBSession(small, ops...)})
		// compaction of a run that excludes the oldest (large) table
		big := small
		big.MaxSize = 200
		ops = []sess.Op{{Op: "put", K: "a", V: "I300"}, {Op: "barrier"}, a[2], {Op: "rotwait"}, a[1], {Op: "rotwait"}, {Op: "compact"}, cl}
		out = append(out, c02Case{Name: "ii-compact-excluding-oldest", Mode: mode, Sess: mkDBSession(big, ops...)})
	}
	{
		// compaction of three tables where the middle one holds a value that the newest overwrites and the oldest a key
		// that the newest deletes (the order in which replaced tables disappear matters for an interrupted recovery)
		ops := []sess.Op{{Op: "put", K: "b", V: "x"}, {Op: "put", K: "c", V: "x"}, {Op: "rotwait"}, {Op: "put", K: "b", V: "y"}, {Op: "put", K: "c", V: "y"}, {Op: "rotwait"},
			{Op: "put", K: "b", V: "z"}, {Op: "del", K: "c"}, {Op: "rotwait"}, {Op: "compact"}, cl}
		out = append(out, c02Case{Name: "ii-compact-3-tables", Mode: mode, Sess: mkDBSession(small, ops...)})
	}
	{
		// delete-heavy tail: keys that already live in tables are deleted one after the other under a memstore limit that
		// every tombstone exceeds (whatever a Delete does about the memstore size, it must not lose its own log record)
		for _, mem := range []uint64{1, 2} {
			tiny := sess.Cfg{Mem: mem, Thresh: 10, Ratio: 1.0, RBuf: 4096, WBuf: 16, Async: async}
			ops := []sess.Op{{Op: "put", K: "a", V: "x"}, {Op: "put", K: "b", V: "x"}, {Op: "put", K: "c", V: "x"}, {Op: "barrier"},
				{Op: "del", K: "a"}, {Op: "del", K: "b"}, {Op: "del", K: "c"}, {Op: "barrier"}, {Op: "put", K: "b", V: "y"}, cl}
			out = append(out, c02Case{Name: fmt.Sprintf("i-deletes-of-flushed-keys-mem%d", mem), Mode: mode, Sess: mkDBSession(tiny, ops...)})
		}
	}
	{
		// enough rotations for the table and WAL file numbers to reach two digits (naming / ordering of what recovery finds)
		tiny := sess.Cfg{Mem: 1, Thresh: 100, Ratio: 1.0, RBuf: 4096, WBuf: 4096, Async: async}
		var ops []sess.Op
		for i := 0; i < 12; i++ {
			ops = append(ops, sess.Op{Op: "put", K: crashKeys[i%3], V: []string{"x", "y", "z", "w"}[i%4]})
		}
		ops = append(ops, sess.Op{Op: "del", K: "b"}, cl)
		out = append(out, c02Case{Name: "i-twelve-rotations", Mode: mode, Sess: mkDBSession(tiny, ops...)})
	}
	out = append(out, c02Case{Name: "i-wal-size-rotation-after-nine-rotations", Mode: mode, Sess: walNumbersSession(async), Tail: true})
	// (iii) two-session history
	{
		c2 := small
		ops := []sess.Op{a[0], a[1], cl, {Op: "open", Cfg: &c2}, a[2], a[3], cl}
		out = append(out, c02Case{Name: "iii-two-sessions", Mode: mode, Sess: mkDBSession(small, ops...)})
	}
	// (v) library defaults once (4 MiB buffers, ticker on)
	{
		ops := []sess.Op{a[0], a[1], a[2], {Op: "rotwait"}, a[3], cl}
		out = append(out, c02Case{Name: "v-defaults", Mode: mode, Sess: mkDBSession(sess.Cfg{Defaults: true, Async: async}, ops...)})
	}
	{
		// (iv) a record larger than the 4 MiB WAL buffer: one append = several write calls
		bigv := sess.Cfg{Mem: 64 * 1024 * 1024, Thresh: 10, Ratio: 0.2, Async: async}
		ops := []sess.Op{a[1], {Op: "put", K: "a", V: "I5242880"}, a[3], cl}
		out = append(out, c02Case{Name: "iv-5MiB-value", Mode: mode, Sess: mkDBSession(bigv, ops...)})
	}
	if async {
		// the 4 MiB WAL buffer wraps inside a record
		for _, mem := range []uint64{90, 4 * 1024 * 1024, 1024 * 1024 * 1024} {
			cfg := sess.Cfg{Mem: mem, Thresh: 10, Ratio: 0.2, Async: true}
			ops := []sess.Op{{Op: "put", K: "a", V: "I1677721"}, {Op: "put", K: "b", V: "I1677722"}, {Op: "put", K: "c", V: "I1677723"}, {Op: "del", K: "a"}, cl}
			out = append(out, c02Case{Name: fmt.Sprintf("async-3x1.6MiB-mem%d", mem), Mode: mode, Sess: mkDBSession(cfg, ops...)})
		}
		{
			// the same after an earlier, regularly closed session (the WAL directory it leaves must not confuse the next one)
			cfg := sess.Cfg{Mem: 1024 * 1024 * 1024, Thresh: 10, Ratio: 0.2, Async: true}
			c2 := cfg
			ops := []sess.Op{{Op: "put", K: "b", V: "x"}, cl, {Op: "open", Cfg: &c2}, {Op: "put", K: "a", V: "I1677721"}, {Op: "put", K: "b", V: "I1677722"}, {Op: "put", K: "c", V: "I1677723"}, {Op: "del", K: "a"}, cl}
			out = append(out, c02Case{Name: "async-second-session-3x1.6MiB", Mode: mode, Sess: mkDBSession(cfg, ops...)})
		}
		for _, mem := range []uint64{90, 1024 * 1024 * 1024} {
			// the WAL written with direct I/O (block-aligned, zero-padded flushes)
			cfg := sess.Cfg{Mem: mem, Thresh: 10, Ratio: 0.2, Async: true, Direct: true}
			c2 := cfg
			ops := []sess.Op{{Op: "put", K: "a", V: "I1677721"}, {Op: "put", K: "b", V: "x"}, {Op: "put", K: "c", V: "I1677723"}, {Op: "put", K: "b", V: "I1677722"}, {Op: "del", K: "a"}, cl,
				{Op: "open", Cfg: &c2}, {Op: "put", K: "a", V: "y"}, cl}
			out = append(out, c02Case{Name: fmt.Sprintf("async-direct-io-wal-mem%d", mem), Mode: mode, Sess: mkDBSession(cfg, ops...)})
		}
		{
			// size-triggered rotation of the WAL file inside one memstore generation: the file limit is 100 x the memstore
			// size (6.4 MB here, above the 4 MiB buffer); three keys are overwritten until the limit is crossed
			cfg := sess.Cfg{Mem: 64 * 1024, Thresh: 10, Ratio: 0.2, Async: true}
			var ops []sess.Op
			for i := 0; i < 1700; i++ {
				ops = append(ops, sess.Op{Op: "put", K: crashKeys[i%3], V: fmt.Sprintf("I%d", 4000+i%7)})
			}
			ops = append(ops, cl)
			out = append(out, c02Case{Name: "async-wal-size-rotation", Mode: mode, Sess: mkDBSession(cfg, ops...)})
		}
	}
	// (vi) consistent cuts: hold the flusher / compactor at its n-th call while the client runs on
	crafted := mkDBSession(small, a[0], a[1], a[2], sess.Op{Op: "mark", Text: "RELEASE"}, sess.Op{Op: "put", K: "c", V: "I80"}, cl)
	nHold := 12
	if tier == "thorough" {
		nHold = 70
	}
	for n := 0; n < nHold; n++ {
		out = append(out, c02Case{Name: fmt.Sprintf("vi-hold-flusher-%d", n), Mode: mode, Sess: crafted, Hold: &ktrace.Hold{Class: "flusher", N: n, Release: "RELEASE"}})
	}
	craftedC := mkDBSession(small, a[0], sess.Op{Op: "barrier"}, a[2], sess.Op{Op: "rotwait"}, sess.Op{Op: "gocompact"}, a[1], a[3], sess.Op{Op: "mark", Text: "RELEASE"}, sess.Op{Op: "joincompact"}, cl)
	for n := 0; n < nHold; n++ {
		out = append(out, c02Case{Name: fmt.Sprintf("vi-hold-compactor-%d", n), Mode: mode, Sess: craftedC, Hold: &ktrace.Hold{Class: "compactor", N: n, Release: "RELEASE"}})
	}
	return out
}

func (c c02) Run(ctx *core.Ctx) error {
	cs := c.sessions(ctx.Tier)
	var cases []json.RawMessage
	for _, x := range cs {
		cases = append(cases, core.J(x))
	}
	ctx.Ev.Rule = "sessions (open, operations, rotations, flushes, compactions, close, reopen) run in a traced child process; the tracer admits one file-system-mutating system call at a time and snapshots the directory at the entry of each (= every boundary between two completed calls of any thread); hold policies additionally stop the flusher/compactor thread at its n-th call while the client runs on (consistent cuts); every distinct image is recovered by a fresh process with default options and compared with the reference of the operations acknowledged at that instant (operations in flight may be present or absent); for the small sessions the recovering process is additionally killed the moment Open has returned and the directory is recovered once more against the same reference. distinct = (session, image, acknowledged set); non-trivial = image taken after the first acknowledged write"
	ctx.Ev.Bounds["sessions"] = len(cases)
	ctx.Ev.Assume = []string{"kill -9 model: the file system retains every completed system call (no torn writes, no power loss) - this is the fault model the property states",
		"crash points are boundaries between mutating system calls (write, open-with-create, rename, unlink, mkdir, rmdir, truncate); only one is in flight at a time, so every image is exactly a set of completed calls"}
	rs := ctx.Pmap(cases)
	ctx.Fold(rs, cases)
	for i, r := range rs {
		if r.Died {
			ctx.Report(core.Violation{Desc: "worker died: " + r.DiedMsg, Case: cases[i]})
		}
	}
	return nil
}

func (c c02) Case(w *core.WCtx, payload json.RawMessage) core.Result {
	var cs c02Case
	json.Unmarshal(payload, &cs)
	var r core.Result
	dir := w.Dir()
	dbdir := filepath.Join(dir, "db")
	mustMkdir(dbdir)
	sp := writeSession(dir, cs.Sess)
	tr := ktrace.Run(ktrace.Options{Dir: dbdir, Argv: []string{binPath("vchild"), "run", dbdir, sp}, Hold: cs.Hold})
	viol := func(sig string, img int, f string, a ...any) {
		if len(r.Viol) < 8 {
			nc := cs
			nc.Only = &img
			r.Viol = append(r.Viol, core.Violation{Sig: sig, Desc: fmt.Sprintf("session %s [%s]%s: %s", cs.Name, sessStr(cs.Sess), holdStr(cs.Hold), fmt.Sprintf(f, a...)), Case: core.J(nc)})
		}
	}
	if tr.Err != nil {
		viol("", -1, "tracer: %v", tr.Err)
		return r
	}
	if tr.ExitCode != 0 || tr.Signaled {
		viol("", -1, "uninterrupted session failed: exit %d signaled %v", tr.ExitCode, tr.Signaled)
	}
	r.Trans = int64(len(tr.Events))
	if r.Extra == nil {
		r.Extra = map[string]int64{}
	}
	r.Extra["syscall_stops"] += int64(tr.Stops)
	r.Extra["released_by_idle"] += int64(tr.ReleasedByIdle)
	for _, e := range tr.Events {
		if e.Kind == "call" {
			r.Extra["mutating_calls_"+e.Class]++
		}
		if e.Kind == "hold" {
			r.Extra["holds_placed"]++
		}
	}
	sits := situations(tr)
	if cs.Tail {
		from := len(tr.Events)
		for i, e := range tr.Events {
			if e.Kind == "marker" && e.Marker == "TAIL" {
				from = i
				break
			}
		}
		var kept []crashSituation
		for _, s := range sits {
			if s.Event < 0 || s.Event >= from {
				kept = append(kept, s)
			}
		}
		sits = kept
	}
	// group situations by image
	byImg := map[int][]crashSituation{}
	for _, s := range sits {
		byImg[s.Image] = append(byImg[s.Image], s)
	}
	rdir := filepath.Join(dir, "rec")
	for img := 0; img < len(tr.Images); img++ {
		ss := byImg[img]
		if len(ss) == 0 || (cs.Only != nil && *cs.Only != img) {
			continue
		}
		d, exit, stderr, err := recoverImage(tr, tr.Images[img], rdir, crashKeys)
		r.Traces++
		if err != nil {
			viol("", img, "harness: %v", err)
			continue
		}
		got := dumpMap(d)
		for _, s := range ss {
			r.Evals++
			if len(s.Acked) > 0 {
				r.Keys = append(r.Keys, core.HashKey(cs.Name, sessStr(cs.Sess), holdStr(cs.Hold), tr.Images[img].Hash, fmt.Sprint(s.Acked, s.Inflight)))
			}
			where := s.Desc
			if exit != 0 {
				viol(c.sigOpen(tr, s, stderr), img, "image %d (%s; acked ops %v in flight %v): recovery process died with exit %d: %s", img, where, s.Acked, s.Inflight, exit, stderr)
				break
			}
			if d.OpenErr != "" {
				viol(c.sigOpen(tr, s, d.OpenErr), img, "image %d (%s; acked ops %v in flight %v): Open failed: %s", img, where, s.Acked, s.Inflight, d.OpenErr)
				break
			}
			if len(d.GetErr) > 0 || d.Close != "" {
				viol("", img, "image %d (%s): reads or Close failed after recovery: %v %s", img, where, d.GetErr, d.Close)
				break
			}
			ok, wants := c.acceptable(cs, s, got)
			if !ok {
				viol(c.sigData(tr, s), img, "image %d (%s; acked ops %v in flight %v): recovered %s, acceptable: %s", img, where, s.Acked, s.Inflight, mapStr(got), strings.Join(wants, " or "))
			}
		}
		// the directory of a session with compactions is also re-opened by a session that has compactions switched off
		// (and one with a 1-byte memstore limit and no file threshold): what an interrupted compaction left behind must be
		// dealt with whatever the options of the next session are
		hasCompaction := false
		for _, o := range cs.Sess.Ops {
			hasCompaction = hasCompaction || o.Op == "compact" || o.Op == "gocompact"
		}
		if hasCompaction && exit == 0 && d.OpenErr == "" && len(r.Viol) == 0 {
			for _, ro := range []string{"nocompaction", "mem1,thresh0"} {
				d3, exit3, stderr3, err := recoverImageWith(tr, tr.Images[img], rdir, crashKeys, ro)
				r.Traces++
				r.Extra["recoveries_with_other_options"]++
				switch {
				case err != nil:
					viol("", img, "harness: %v", err)
				case exit3 != 0 || d3.OpenErr != "":
					viol("other-options:open-fails", img, "image %d (%s): re-opened with options [%s]: Open failed: exit %d %s %s", img, ss[0].Desc, ro, exit3, d3.OpenErr, stderr3)
				default:
					got3 := dumpMap(d3)
					for _, s := range ss {
						r.Evals++
						if ok, wants := c.acceptable(cs, s, got3); !ok {
							viol("other-options:data-differs", img, "image %d (%s; acked ops %v in flight %v): re-opened with options [%s]: reads %s, acceptable: %s", img, s.Desc, s.Acked, s.Inflight, ro, mapStr(got3), strings.Join(wants, " or "))
							break
						}
					}
				}
			}
		}
		// a second kill right after the recovery: the process that re-opened the directory is stopped the moment Open has
		// returned (nothing it holds only in memory may be needed), and the directory it leaves is recovered once more
		anyAcked := false
		for _, s := range ss {
			anyAcked = anyAcked || len(s.Acked) > 0
		}
		if anyAcked && exit == 0 && d.OpenErr == "" && secondKill(cs.Name) && len(r.Viol) == 0 {
			work := filepath.Join(dir, "k2")
			removeAll(work)
			if err := tr.Materialize(tr.Images[img], work); err != nil {
				viol("", img, "harness: %v", err)
				continue
			}
			tr2 := ktrace.Run(ktrace.Options{Dir: work, Argv: append([]string{binPath("vchild"), "recover", work}, crashKeys...), StopAfter: "OPENED"})
			if tr2.Err != nil || !tr2.Stopped {
				viol("", img, "image %d: traced recovery did not reach the end of Open (err %v exit %d)", img, tr2.Err, tr2.ExitCode)
				continue
			}
			d2, exit2, stderr2, err := recoverImage(tr2, tr2.Images[tr2.FinalImage], rdir, crashKeys)
			r.Traces++
			r.Extra["second_kill_after_recovery"]++
			switch {
			case err != nil:
				viol("", img, "harness: %v", err)
			case exit2 != 0 || d2.OpenErr != "":
				viol("second-kill:open-fails", img, "image %d (%s): recovered once, killed when Open had returned, recovered again: Open failed: exit %d %s %s", img, ss[0].Desc, exit2, d2.OpenErr, stderr2)
			default:
				got2 := dumpMap(d2)
				for _, s := range ss {
					r.Evals++
					if ok, wants := c.acceptable(cs, s, got2); !ok {
						viol("second-kill:data-differs", img, "image %d (%s; acked ops %v in flight %v): recovered once, killed when Open had returned, recovered again: reads %s, acceptable: %s", img, s.Desc, s.Acked, s.Inflight, mapStr(got2), strings.Join(wants, " or "))
						break
					}
				}
			}
		}
	}
	r.Outcome = fmt.Sprintf("%s ok=%v", strings.SplitN(cs.Name, "-", 2)[0], len(r.Viol) == 0)
	if cs.Name == "i" && len(cs.Sess.Ops) == 4 {
		r.Sample = string(core.J(map[string]any{"session": sessStr(cs.Sess), "mutating_calls": r.Extra["mutating_calls_client"] + r.Extra["mutating_calls_flusher"], "distinct_images": len(tr.Images), "situations": len(sits)}))
	}
	return r
}

// secondKill: which sessions get the kill-after-recovery step (the large-file and hold sessions are left to C10's
// nested exploration, which covers every boundary of the recovery, not only its end)
func secondKill(name string) bool {
	return !strings.HasPrefix(name, "vi-hold") && !strings.HasPrefix(name, "iv-") && !strings.HasPrefix(name, "async-")
}

func holdStr(h *ktrace.Hold) string {
	if h == nil {
		return ""
	}
	return fmt.Sprintf(" hold(%s,%d)", h.Class, h.N)
}

// acceptable: sync = model(acked + any subset of in-flight); async = model(some prefix p of the begun ops)
// with p >= the number of ops that preceded the last memstore rotation.
func (c c02) acceptable(cs c02Case, s crashSituation, got map[string]string) (bool, []string) {
	var wants []string
	if cs.Mode == "sync" {
		subsets := [][]int{{}}
		for _, x := range s.Inflight {
			n := len(subsets)
			for i := 0; i < n; i++ {
				subsets = append(subsets, append(append([]int{}, subsets[i]...), x))
			}
		}
		for _, sub := range subsets {
			m := refMap(cs.Sess, append(append([]int{}, s.Acked...), sub...))
			wants = append(wants, mapStr(m))
			if mapsEq(m, got) {
				return true, nil
			}
		}
		return false, wants
	}
	all := append(append([]int{}, s.Acked...), s.Inflight...)
	m := refMap(cs.Sess, all[:min(s.MinPrefix, len(all))])
	for p := s.MinPrefix; p <= len(all); p++ {
		if p > s.MinPrefix {
			refApply(m, cs.Sess.Ops[all[p-1]])
		}
		if len(wants) < 12 {
			wants = append(wants, fmt.Sprintf("prefix%d%s", p, mapStr(m)))
		}
		if mapsEq(m, got) {
			return true, nil
		}
	}
	return false, wants
}

// signatures for known findings: (kind of the last completed call, kind of the next call, error class)
func (c c02) sigOpen(tr *ktrace.Trace, s crashSituation, msg string) string {
	last, _ := lastCompleted(tr, s.Event)
	next, _ := nextCall(tr, s.Event)
	cls := "other"
	switch {
	case strings.Contains(msg, "while reading header bytes") && strings.Contains(msg, ".wal"):
		cls = "wal-header-missing"
	case strings.Contains(msg, "WAL"):
		cls = "wal-replay"
	case strings.Contains(msg, "index"):
		cls = "table-index"
	case strings.Contains(msg, "metadata") || strings.Contains(msg, "meta"):
		cls = "table-meta"
	case strings.Contains(msg, "sstable"):
		cls = "table"
	}
	return fmt.Sprintf("open-fails:%s:after=%s/%s:before=%s/%s", cls, last.Nr, fileKind(last.Path), next.Nr, fileKind(next.Path))
}

func (c c02) sigData(tr *ktrace.Trace, s crashSituation) string {
	last, _ := lastCompleted(tr, s.Event)
	next, _ := nextCall(tr, s.Event)
	return fmt.Sprintf("data-differs:after=%s/%s:before=%s/%s", last.Nr, fileKind(last.Path), next.Nr, fileKind(next.Path))
}
