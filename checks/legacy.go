package checks

import (
	"encoding/binary"
	"path/filepath"
)

// Tables and record files written by earlier versions of the library, kept in the repository as compatibility
// fixtures. Their content is stated here independently of any reader (it is what the repository's own
// compatibility tests document): keys 1..7 as 4-byte big-endian integers, value = key+1.

type legacyFixture struct {
	Name string
	Rel  string // below <repo>/sstables/test_files
	KVs  []kv
}

func (f legacyFixture) Dir() string {
	return filepath.Join(repoRoot(), "sstables", "test_files", f.Rel)
}

func be32(x uint32) []byte {
	b := make([]byte, 4)
	binary.BigEndian.PutUint32(b, x)
	return b
}

func legacySeven() []kv {
	var out []kv
	for i := uint32(1); i <= 7; i++ {
		out = append(out, kv{be32(i), be32(i + 1)})
	}
	return out
}

func legacyTables() []legacyFixture {
	var out []legacyFixture
	for _, rel := range []string{
		"SimpleWriteHappyPathSSTable", // no metadata file at all
		"SimpleWriteHappyPathSSTableRecordIOV2",
		"SimpleWriteHappyPathSSTableWithBloom",
		"SimpleWriteHappyPathSSTableWithCRCHashes",
		"SimpleWriteHappyPathSSTableWithMetaData",
		"v0_compat/SimpleWriteHappyPathSSTable",
		"v0_compat/SimpleWriteHappyPathSSTableRecordIOV2",
		"v0_compat/SimpleWriteHappyPathSSTableWithBloom",
		"v0_compat/SimpleWriteHappyPathSSTableWithMetaData",
	} {
		out = append(out, legacyFixture{Name: rel, Rel: rel, KVs: legacySeven()})
	}
	out = append(out, legacyFixture{Name: "SimpleWriteHappyPathSSTableWithCRCHashesEmptyValues", Rel: "SimpleWriteHappyPathSSTableWithCRCHashesEmptyValues",
		KVs: []kv{{be32(0x2a), be32(0)}, {be32(0x2d), []byte{}}}})
	return out
}
