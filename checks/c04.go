package checks

import (
	"bytes"
	"encoding/json"
	"errors"
	"fmt"
	"io"
	"strings"

	"github.com/thomasjungblut/go-sstables/recordio"
	"verif/internal/core"
)

// C04: RecordIO returns written records unchanged through every reader and access path.

type c04 struct{}

func init()            { core.Register(c04{}) }
func (c04) ID() string { return "C04" }

type c04Case struct {
	Prog []wop    `json:"prog"`
	Cfgs []rioCfg `json:"cfgs"`
	// AllOffsets=false restricts SeekNext start offsets of files > 600 bytes to
	// windows around record boundaries and every 13th offset.
	AllOffsets bool `json:"all_offsets"`
	// Sizes: records whose lengths sit on both sides of the variable-length-integer boundaries (indexes into c04SizeRecs)
	Sizes []int `json:"sizes,omitempty"`
	// Legacy: a multi-record compatibility fixture of the repository (below recordio/test_files), 255 records, record i =
	// the bytes 0..i-1 (as its generator documents)
	Legacy string `json:"legacy,omitempty"`
}

// enumerate writer programs of exactly `length` ops. recs = indexes usable by W,
// syncRecs = indexes usable by S. Seeks target surviving boundaries only.
func rioPrograms(length int, recs, syncRecs []int, maxBig int, bigIdx int) [][]wop {
	var out [][]wop
	var rec func(prog []wop, surviving int, bigs int)
	rec = func(prog []wop, surviving int, bigs int) {
		if len(prog) == length {
			out = append(out, append([]wop(nil), prog...))
			return
		}
		for _, r := range recs {
			nb := bigs
			if r == bigIdx {
				nb++
				if nb > maxBig {
					continue
				}
			}
			rec(append(prog, wop{"W", r}), surviving+1, nb)
		}
		for _, r := range syncRecs {
			rec(append(prog, wop{"S", r}), surviving+1, bigs)
		}
		for j := 0; j <= surviving; j++ {
			if surviving == 0 && len(prog) > 0 && prog[len(prog)-1].Op == "K" {
				continue // repeated no-op seeks on an empty file
			}
			rec(append(prog, wop{"K", j}), j, bigs)
		}
	}
	rec(nil, 0, 0)
	return out
}

func (c c04) Run(ctx *core.Ctx) error {
	alpha := rioAlphabet()
	var all []int
	for i := range alpha {
		all = append(all, i)
	}
	big := rioRecIndex("big")
	syncRecs := []int{rioRecIndex("nil"), rioRecIndex("a"), rioRecIndex("marker"), rioRecIndex("x91")}
	var cfgs []rioCfg
	for comp := 0; comp < 4; comp++ {
		for _, wb := range []int{3, 16, 4096} {
			for _, rb := range []int{5, 4096} {
				cfgs = append(cfgs, rioCfg{Comp: comp, WBuf: wb, RBuf: rb})
			}
		}
	}
	maxLen := 2
	if ctx.Tier == "thorough" {
		maxLen = 3
	}
	var cases []json.RawMessage
	nprog := 0
	for l := 0; l <= maxLen; l++ {
		for _, p := range rioPrograms(l, all, syncRecs, 1, big) {
			nprog++
			cases = append(cases, core.J(c04Case{Prog: p, Cfgs: cfgs, AllOffsets: true}))
		}
	}
	if ctx.Tier == "thorough" {
		// length 4 over a reduced alphabet (the records that interact with framing)
		small := []int{rioRecIndex("nil"), rioRecIndex("empty"), rioRecIndex("a"), rioRecIndex("918d"), rioRecIndex("x91"), rioRecIndex("mk00ff")}
		for _, p := range rioPrograms(4, small, []int{rioRecIndex("nil"), rioRecIndex("x91")}, 0, big) {
			nprog++
			cases = append(cases, core.J(c04Case{Prog: p, Cfgs: cfgs, AllOffsets: true}))
		}
	}
	// seek-heavy programs (rewinds of different lengths, repeated rewinds) over four records: nil, 1, 14 and 40 (zero) bytes
	seekMax := 5
	if ctx.Tier == "thorough" {
		seekMax = 6
	}
	seekRecs := []int{rioRecIndex("nil"), rioRecIndex("a"), rioRecIndex("mk00ff"), rioRecIndex("z40")}
	seekCfgs := []rioCfg{{Comp: 0, WBuf: 16, RBuf: 4096}, {Comp: 0, WBuf: 4096, RBuf: 4096}, {Comp: 2, WBuf: 16, RBuf: 4096}, {Comp: 2, WBuf: 4096, RBuf: 5}}
	nseek := 0
	for l := maxLen + 1; l <= seekMax; l++ {
		for _, p := range rioPrograms(l, seekRecs, nil, 0, big) {
			seeks := 0
			for _, o := range p {
				if o.Op == "K" {
					seeks++
				}
			}
			if seeks == 0 {
				continue
			}
			nseek++
			cases = append(cases, core.J(c04Case{Prog: p, Cfgs: seekCfgs, AllOffsets: true}))
		}
	}
	ctx.Ev.Bounds["seek_programs"] = nseek
	ctx.Ev.Bounds["seek_programs_max_length"] = seekMax
	// direct I/O factory: Write-only programs (WriteSync and sub-block flushes are unsupported there), 4 KiB buffers
	nd := 0
	for l := 0; l <= 2; l++ {
		for _, p := range rioPrograms(l, all, nil, 1, big) {
			hasSeek := false
			for _, o := range p {
				if o.Op == "K" {
					hasSeek = true
				}
			}
			if hasSeek {
				continue
			}
			var dc []rioCfg
			for comp := 0; comp < 4; comp++ {
				dc = append(dc, rioCfg{Comp: comp, WBuf: 4096, RBuf: 4096, Direct: true})
			}
			nd++
			cases = append(cases, core.J(c04Case{Prog: p, Cfgs: dc, AllOffsets: true}))
		}
	}
	// lengths around the varint boundaries 2^7 and 2^14 (raw and, for incompressible payloads, also compressed lengths)
	nsz := len(c04SizeRecs())
	for i := 0; i < nsz; i++ {
		cases = append(cases, core.J(c04Case{Sizes: []int{i}}))
		cases = append(cases, core.J(c04Case{Sizes: []int{0, i, 1}}))
		if i < 10 {
			cases = append(cases, core.J(c04Case{Sizes: []int{i, i}}))
		}
	}
	ctx.Ev.Bounds["boundary_record_lengths"] = []int{126, 127, 128, 129, 16382, 16383, 16384, 16385, 32768, 32769, 65537, 524288, 524289}
	// record files written by the earlier format versions (and the current one as a control), read through every path
	var legacy []string
	for _, v := range []string{"v1", "v2", "v3", "v4"} {
		for _, f := range []string{"recordio_UncompressedWriterMultiRecord_asc", "recordio_SnappyWriterMultiRecord_asc"} {
			legacy = append(legacy, v+"_compat/"+f)
			cases = append(cases, core.J(c04Case{Legacy: v + "_compat/" + f}))
		}
	}
	ctx.Ev.Bounds["legacy_fixture_files"] = legacy
	ctx.Ev.Rule = "every writer program of Write/WriteSync/Seek(to a surviving boundary) up to the length bound over 13 records (nil, empty, 40 zero bytes, marker prefixes and the full marker, a payload that makes a trial read overflow a varint, payloads starting with 00/80, a 4200-byte incompressible record containing a marker) x 4 compressions x write buffers {3,16,4096} x read buffers {5,4096} (+ direct-I/O factory for Write-only programs; + every program with at least one Seek up to seek_programs_max_length over the records nil, 1, 14 and 40 zero bytes x 4 configs); plus the 255-record fixtures of format versions 1-4 of the repository read through every path against their documented content; per file: every word over {ReadNext,SkipNext} of length n+1, ReadNextAt at every returned offset, SeekNext from every byte offset 0..size. a case is distinct by (program, config); non-trivial = at least one record survives"
	ctx.Ev.Bounds["max_program_length"] = maxLen
	ctx.Ev.Bounds["programs"] = nprog
	ctx.Ev.Bounds["direct_io_programs"] = nd
	ctx.Ev.Bounds["configs_per_program"] = len(cfgs)
	ctx.Ev.Assume = []string{"payloads that embed a complete, checksummed record image are excluded: no unescaped framing can tell them from a record, so the seek-next clause is unsatisfiable for them by any implementation"}
	rs := ctx.Pmap(cases)
	ctx.Fold(rs, cases)
	for i, r := range rs {
		if r.Died {
			ctx.Report(core.Violation{Desc: "worker died (panic or crash in reader/writer): " + r.DiedMsg, Case: cases[i]})
		}
	}
	return nil
}

func (c c04) Case(w *core.WCtx, payload json.RawMessage) core.Result {
	var cs c04Case
	json.Unmarshal(payload, &cs)
	var r core.Result
	if cs.Legacy != "" {
		return c04Legacy(cs)
	}
	alpha := rioAlphabet()
	if cs.Sizes != nil {
		alpha = c04SizeRecs()
		cs.Prog = nil
		for _, i := range cs.Sizes {
			cs.Prog = append(cs.Prog, wop{"W", i})
		}
		cs.AllOffsets = false
		cs.Cfgs = nil
		for comp := 0; comp < 4; comp++ {
			cs.Cfgs = append(cs.Cfgs, rioCfg{Comp: comp, WBuf: 4096, RBuf: 4096}, rioCfg{Comp: comp, WBuf: 16, RBuf: 5})
		}
	}
	progStr := func() string {
		var s []string
		for _, o := range cs.Prog {
			if o.Op == "K" {
				s = append(s, fmt.Sprintf("Seek(b%d)", o.Arg))
			} else {
				s = append(s, fmt.Sprintf("%s(%s)", map[string]string{"W": "Write", "S": "WriteSync"}[o.Op], alpha[o.Arg].Name))
			}
		}
		return strings.Join(s, " ")
	}()
	viol := func(cfg rioCfg, sig, f string, a ...any) {
		if len(r.Viol) < 12 {
			r.Viol = append(r.Viol, core.Violation{Sig: sig, Desc: fmt.Sprintf("[%s] cfg=%+v: %s", progStr, cfg, fmt.Sprintf(f, a...)),
				Case: core.J(c04Case{Prog: cs.Prog, Cfgs: []rioCfg{cfg}, AllOffsets: cs.AllOffsets, Sizes: cs.Sizes})})
		}
	}
	for _, cfg := range cs.Cfgs {
		func() {
			defer func() {
				if p := recover(); p != nil {
					viol(cfg, "", "panic: %v", p)
				}
			}()
			dir := w.Dir()
			path := tmpFile(dir, "f.rio")
			m, bad, err := rioWrite(path, cs.Prog, cfg, alpha)
			r.Trans += int64(len(cs.Prog))
			r.Traces++
			if err != nil {
				viol(cfg, "", "writer failed: %v", err)
				return
			}
			for _, b := range bad {
				viol(cfg, "", "%s", b)
			}
			n := len(m.Recs)
			if n > 0 {
				r.Keys = append(r.Keys, core.HashKey(progStr, fmt.Sprint(cfg)))
			}
			// sequential reader: every word over {R,S} of length n+1
			for word := uint(0); word < 1<<uint(n+1); word++ {
				r.Evals++
				if msg := rioSeqWord(path, cfg.RBuf, m, word, n+1); msg != "" {
					sig := ""
					if cfg.Direct && word&(1<<uint(n)) != 0 && strings.Contains(msg, "SkipNext at end") {
						sig = "D18-skipnext-zero-tail"
					}
					// D1: SkipNext over a nil record of a compressed file
					for i := 0; i < n; i++ {
						if word&(1<<uint(i)) != 0 && m.Recs[i] == nil && cfg.Comp != 0 {
							sig = "D1-skipnext-nil-compressed"
						}
					}
					viol(cfg, sig, "reader word %s: %s", wordStr(word, n+1), msg)
				}
			}
			// random access
			mm, err := recordio.NewMemoryMappedReaderWithPath(path)
			if err != nil {
				viol(cfg, "", "mmap reader: %v", err)
				return
			}
			defer mm.Close()
			if err := mm.Open(); err != nil {
				viol(cfg, "", "mmap open: %v", err)
				return
			}
			var keptAt [][]byte
			for i := range m.Recs {
				r.Evals++
				got, err := mm.ReadNextAt(m.Offs[i])
				if err != nil || !recEq(got, m.Recs[i]) {
					viol(cfg, "", "ReadNextAt(%d) = %s,%v want %s", m.Offs[i], recStr(got), err, recStr(m.Recs[i]))
				}
				keptAt = append(keptAt, got)
			}
			for i, g := range keptAt {
				if !recEq(g, m.Recs[i]) && len(r.Viol) == 0 {
					viol(cfg, "", "the record returned by ReadNextAt(%d) changed after later calls: now %s, written %s", m.Offs[i], recStr(g), recStr(m.Recs[i]))
				}
			}
			r.Evals++
			if !cfg.Direct && mm.Size() != m.Size {
				viol(cfg, "", "mmap Size()=%d want %d", mm.Size(), m.Size)
			}
			// seek-next from every offset
			size := mm.Size()
			next := 0 // index of first record with offset >= o
			for o := uint64(0); o <= size; o++ {
				for next < n && m.Offs[next] < o {
					next++
				}
				if !cs.AllOffsets && size > 600 {
					step := uint64(13)
					if size > 100000 {
						step = 50021 // large files: a sparse sweep plus the windows around every record boundary
					}
					near := o%step == 0
					for _, off := range m.Offs {
						if o+40 >= off && o <= off+40 {
							near = true
						}
					}
					if !near {
						continue
					}
				}
				r.Evals++
				off, got, err := mm.SeekNext(o)
				if next < n {
					if err != nil || off != m.Offs[next] || !recEq(got, m.Recs[next]) {
						viol(cfg, seekSig(path, o, m, next, err), "SeekNext(%d) = off %d %s err=%v; want record %d at %d %s", o, off, recStr(got), err, next, m.Offs[next], recStr(m.Recs[next]))
					}
				} else if !errors.Is(err, io.EOF) {
					viol(cfg, seekSig(path, o, m, next, err), "SeekNext(%d) past the last record = off %d %s err=%v; want EOF", o, off, recStr(got), err)
				}
			}
		}()
	}
	r.Outcome = fmt.Sprintf("len=%d ok=%v", len(cs.Prog), len(r.Viol) == 0)
	if len(cs.Prog) == 2 && cs.Prog[0].Op == "W" && cs.Prog[0].Arg == 5 && cs.Prog[1].Op == "K" {
		r.Sample = string(core.J(map[string]any{"program": progStr, "configs": len(cs.Cfgs)}))
	}
	return r
}

// seekSig recognises the two specific SeekNext defects D2/D3 from the counterexample.
func seekSig(path string, o uint64, m rioModel, next int, err error) string {
	if err != nil && strings.Contains(err.Error(), "overflow") {
		return "D3-seeknext-varint-overflow"
	}
	if next < len(m.Offs) {
		// D2: the bytes immediately before the missed record's marker (at or after o) are a proper prefix of the marker
		off := m.Offs[next]
		data := readAll(path)
		if off >= 1 && off-1 >= o && data[off-1] == 0x91 {
			return "D2-seeknext-partial-marker"
		}
		if off >= 2 && off-2 >= o && data[off-2] == 0x91 && data[off-1] == 0x8d {
			return "D2-seeknext-partial-marker"
		}
	}
	return ""
}

// c04SizeRecs: index 0 and 1 are small neighbours, the rest sit around the varint boundaries.
func c04SizeRecs() []rioRec {
	out := []rioRec{{"a", []byte("a")}, {"nil", nil}}
	// ... and beyond the 32 KiB inflate window, the 64 KiB mark and the 512 KiB pool bucket
	for _, n := range []int{126, 127, 128, 129, 16382, 16383, 16384, 16385, 32768, 32769, 65537, 524288, 524289} {
		out = append(out, rioRec{fmt.Sprintf("i%d", n), incompressible(n, uint64(n))})
	}
	return out
}

// c04Legacy reads a 255-record fixture of an earlier format version through every reader and access path.
func c04Legacy(cs c04Case) core.Result {
	var r core.Result
	path := repoRoot() + "/recordio/test_files/" + cs.Legacy
	viol := func(f string, a ...any) {
		if len(r.Viol) < 6 {
			r.Viol = append(r.Viol, core.Violation{Desc: fmt.Sprintf("legacy file %s: %s", cs.Legacy, fmt.Sprintf(f, a...)), Case: core.J(cs)})
		}
	}
	defer func() {
		if p := recover(); p != nil {
			viol("panic: %v", p)
		}
	}()
	const n = 255
	want := func(i int) []byte {
		b := make([]byte, i)
		for j := range b {
			b[j] = byte(j)
		}
		return b
	}
	// the formats before version 4 cannot tell nil from empty: record 0 may come back as either
	same := func(got []byte, i int) bool { return bytes.Equal(got, want(i)) }
	// sequential: read all; skip all; alternate (both phases); read buffers 5 and 4096
	for _, rb := range []int{5, 4096} {
		for _, pat := range []string{"R", "S", "RS", "SR", "RRS"} {
			rd, err := openSeq(path, rb)
			if err != nil {
				viol("sequential reader (buffer %d): %v", rb, err)
				continue
			}
			r.Traces++
			for i := 0; i <= n; i++ {
				r.Evals++
				skip := pat[i%len(pat)] == 'S'
				var got []byte
				var err error
				if skip {
					err = rd.SkipNext()
				} else {
					got, err = rd.ReadNext()
				}
				if i == n {
					if !errors.Is(err, io.EOF) {
						viol("pattern %s buffer %d: call %d past the last record returned %s,%v want EOF", pat, rb, i, recStr(got), err)
					}
					break
				}
				if err != nil {
					viol("pattern %s buffer %d: call %d (skip=%v) failed: %v", pat, rb, i, skip, err)
					break
				}
				if !skip && !same(got, i) {
					viol("pattern %s buffer %d: record %d = %s want %s", pat, rb, i, recStr(got), recStr(want(i)))
					break
				}
			}
			rd.Close()
		}
	}
	// random access
	mm, err := recordio.NewMemoryMappedReaderWithPath(path)
	if err == nil {
		err = mm.Open()
	}
	if err != nil {
		viol("mmap reader: %v", err)
		return r
	}
	defer mm.Close()
	r.Keys = append(r.Keys, core.HashKey("legacy", cs.Legacy))
	if strings.HasPrefix(cs.Legacy, "v1") {
		// no record marker below version 2: only the first offset is known (SeekNext is documented as unsupported)
		got, err := mm.ReadNextAt(8)
		r.Evals++
		if err != nil || !same(got, 0) {
			viol("ReadNextAt(8) = %s,%v want the first record", recStr(got), err)
		}
		if _, _, err := mm.SeekNext(0); err == nil {
			viol("SeekNext on a version-1 file did not report that it is unsupported")
		}
		r.Outcome = "legacy v1"
		return r
	}
	var offs []uint64
	off := uint64(0)
	for i := 0; i < n+2; i++ {
		r.Evals++
		o, got, err := mm.SeekNext(off)
		if err != nil {
			if !errors.Is(err, io.EOF) {
				viol("SeekNext(%d) failed: %v", off, err)
			}
			break
		}
		if i >= n {
			viol("SeekNext finds a record %d at offset %d beyond the %d written", i, o, n)
			break
		}
		if !same(got, i) {
			viol("SeekNext(%d) = offset %d %s, want record %d %s", off, o, recStr(got), i, recStr(want(i)))
			break
		}
		offs = append(offs, o)
		off = o + 1
	}
	if len(offs) != n && len(r.Viol) == 0 {
		viol("SeekNext chain found %d records, written %d", len(offs), n)
	}
	for i, o := range offs {
		r.Evals += 2
		got, err := mm.ReadNextAt(o)
		if err != nil || !same(got, i) {
			viol("ReadNextAt(%d) = %s,%v want record %d", o, recStr(got), err, i)
			break
		}
		// from inside record i the next record is found (the payloads hold no marker)
		if i+1 < len(offs) && offs[i+1] > o+1 {
			o2, got, err := mm.SeekNext(o + 1)
			if err != nil || o2 != offs[i+1] || !same(got, i+1) {
				viol("SeekNext(%d) = offset %d %s,%v want record %d at %d", o+1, o2, recStr(got), err, i+1, offs[i+1])
				break
			}
		}
	}
	r.Outcome = fmt.Sprintf("legacy ok=%v", len(r.Viol) == 0)
	r.Sample = string(core.J(map[string]any{"legacy_file": cs.Legacy, "records": n, "offsets_found": len(offs)}))
	return r
}
