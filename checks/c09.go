package checks

import (
	"encoding/json"
	"errors"
	"fmt"
	"os"
	"path/filepath"

	"github.com/thomasjungblut/go-sstables/sstables"
	"verif/internal/core"
)

// C09: a damaged SSTable data file is detected, never served as different data.

type c09 struct{}

func init()            { core.Register(c09{}) }
func (c09) ID() string { return "C09" }

type c09Case struct {
	Table  int    `json:"table"`
	Comp   int    `json:"comp"`
	Mode   string `json:"mode"` // "load" (default: verify on load) | "read" (skip on load, verify on read)
	Loader string `json:"loader"`
	// replay narrowing
	OnlyKind string `json:"only_kind,omitempty"` // "byte" | "cut" | "swap"
	OnlyPos  int    `json:"only_pos,omitempty"`
	OnlyVal  int    `json:"only_val,omitempty"`
}

func c09Tables() [][]kv {
	return [][]kv{
		{{[]byte("a"), []byte("alpha")}, {[]byte("b"), []byte{0x91, 0x8d, 0x4c, 0x01}}, {[]byte("c"), []byte("a-thirty-byte-long-value-012345")}},
		{{[]byte{}, []byte("x")}, {[]byte("k"), []byte("yy")}, {[]byte("kk"), []byte("x")}},
		{{[]byte("a"), incompressible(300, 5)}, {[]byte("b"), []byte("short")}, {[]byte("c"), incompressible(300, 6)}},
		// an empty and a nil value (stored checksum 0) in front of and between non-empty ones: whatever the reader does for
		// zero checksums must not carry over to the records around them
		{{[]byte("a"), []byte{}}, {[]byte("b"), []byte("bravo-value")}, {[]byte("c"), nil}, {[]byte("d"), []byte("delta-value")}},
	}
}

func (c c09) Run(ctx *core.Ctx) error {
	var cases []json.RawMessage
	loaders := []string{"default", "disk", "map4"}
	if ctx.Tier == "thorough" {
		loaders = []string{"default", "skiplist", "map4", "disk"}
	}
	for t := range c09Tables() {
		for comp := 0; comp < 4; comp++ {
			for _, mode := range []string{"load", "read"} {
				for _, l := range loaders {
					cases = append(cases, core.J(c09Case{Table: t, Comp: comp, Mode: mode, Loader: l}))
				}
			}
		}
	}
	// large tables: one damaged record at a time, every record of the table
	bigNs := []int{4101}
	if ctx.Tier == "thorough" {
		bigNs = []int{4096, 4097, 4098, 4099, 4100, 4101, 4102, 4103, 8195}
	}
	const bigShards = 8
	for _, n := range bigNs {
		for _, mode := range []string{"load", "read"} {
			for sh := 0; sh < bigShards; sh++ {
				cases = append(cases, core.J(c09Case{Table: -n, Mode: mode, Loader: "default", OnlyPos: sh, OnlyVal: bigShards}))
			}
		}
	}
	ctx.Ev.Bounds["large_tables_records"] = bigNs
	ctx.Ev.Level = "fault_enumeration"
	ctx.Ev.Rule = "3 tables of 3 records with non-empty values (one containing the marker bytes, one with 300-byte values) and one table of 4 records with an empty and a nil value between non-empty ones x 4 data compressions x {verify-on-load (default), skip-on-load + verify-on-read} x loaders; damage of data.rio = every byte offset x {8 bit flips, 00, ff, 91, 8d, 4c}, every truncation length, every swap of two whole records; after each damage: open, Get of every key, full Scan, ScanRange(all), then Get of every key twice more - each step must fail or return exactly the written value. Large tables (record counts in bounds): for every record of the table one bit of its value flipped, then open and Get of that key twice. distinct = (table, config, damage)"
	ctx.Ev.Bounds["loaders"] = loaders
	rs := ctx.Pmap(cases)
	ctx.Fold(rs, cases)
	for i, r := range rs {
		if r.Died {
			ctx.Report(core.Violation{Desc: "process stopped unexpectedly on a damaged data file (panic / out of memory): " + r.DiedMsg, Case: cases[i]})
		}
	}
	return nil
}

func (c c09) Case(w *core.WCtx, payload json.RawMessage) core.Result {
	var cs c09Case
	json.Unmarshal(payload, &cs)
	var r core.Result
	if cs.Table < 0 {
		return c09Big(w, cs)
	}
	table := c09Tables()[cs.Table]
	for i := range table {
		if table[i].K == nil {
			table[i].K = []byte{}
		}
	}
	dir := w.Dir()
	if err := writeTable(dir, table, tblW{Writer: "stream", DataComp: cs.Comp, IndexComp: 0, WBuf: 4096}); err != nil {
		r.Viol = append(r.Viol, core.Violation{Desc: "cannot build table: " + err.Error()})
		return r
	}
	dataPath := filepath.Join(dir, sstables.DataFileName)
	orig := readAll(dataPath)
	// record boundaries from the index via an undamaged reader
	var offs []int
	{
		rd, err := openTable(dir, tblR{RBuf: 4096})
		if err != nil {
			r.Viol = append(r.Viol, core.Violation{Desc: "cannot open undamaged table: " + err.Error()})
			return r
		}
		rd.Close()
		off := 8
		for range table {
			offs = append(offs, off)
			hl, pl, ok := parseHeaderLen(orig, uint64(off), cs.Comp != 0)
			if !ok {
				r.Viol = append(r.Viol, core.Violation{Desc: "cannot parse data file layout"})
				return r
			}
			off += hl + pl
		}
		offs = append(offs, off)
		if off != len(orig) {
			r.Viol = append(r.Viol, core.Violation{Desc: fmt.Sprintf("layout mismatch %d vs %d", off, len(orig))})
			return r
		}
	}
	rc := tblR{Loader: cs.Loader, RBuf: 4096}
	if cs.Mode == "read" {
		rc.SkipOnLoad, rc.VerifyOnRead = true, true
	}
	viol := func(nc c09Case, f string, a ...any) {
		if len(r.Viol) < 8 {
			nc.Table, nc.Comp, nc.Mode, nc.Loader = cs.Table, cs.Comp, cs.Mode, cs.Loader
			r.Viol = append(r.Viol, core.Violation{Desc: fmt.Sprintf("table %d comp=%d mode=%s loader=%s: %s", cs.Table, cs.Comp, cs.Mode, cs.Loader, fmt.Sprintf(f, a...)), Case: core.J(nc)})
		}
	}
	// same: the statement is about keys with a non-empty value. An empty or nil value carries checksum zero by format
	// design (no hash comparison is possible), so nothing is demanded for those keys; they are in the fourth table only
	// because of what they may do to the verification of the records around them.
	same := func(got, written []byte) bool {
		if len(written) == 0 {
			return true
		}
		return recEq(got, written)
	}
	check := func(nc c09Case, what string, damaged []byte) {
		os.WriteFile(dataPath, damaged, 0o644)
		r.Traces++
		r.Keys = append(r.Keys, core.HashKey(fmt.Sprint(cs), what))
		outcome := "detected-at-open"
		defer func() {
			if r.Extra == nil {
				r.Extra = map[string]int64{}
			}
			r.Extra[outcome]++
		}()
		defer func() {
			if p := recover(); p != nil {
				viol(nc, "%s: panic: %v", what, p)
			}
		}()
		rd, err := openTable(dir, rc)
		r.Evals++
		if err != nil {
			return
		}
		defer rd.Close()
		outcome = "opened-all-correct"
		failed := false
		getAll := func(round string) {
			for _, e := range table {
				r.Evals++
				v, err := rd.Get(e.K)
				if err != nil {
					failed = true
					continue
				}
				if !same(v, e.V) {
					viol(nc, "%s: %sGet(%s) returned %s without error, written %s", what, round, keyStr(e.K), recStr(v), recStr(e.V))
				}
			}
		}
		getAll("")
		getAll("second ") // the answer for a damaged record must not depend on having been asked before
		scanCheck := func(name string, it sstables.SSTableIteratorI, err error, from int) {
			r.Evals++
			if err != nil {
				failed = true
				return
			}
			for i := from; ; i++ {
				k, v, err := it.Next()
				if err != nil {
					if !errors.Is(err, sstables.Done) {
						failed = true
					} else if i < len(table) {
						// ended early without an error: records silently missing
						viol(nc, "%s: %s ended after %d of %d records without an error", what, name, i, len(table))
					}
					return
				}
				if i >= len(table) {
					viol(nc, "%s: %s yields extra record %s", what, name, keyStr(k))
					return
				}
				if string(k) != string(table[i].K) || !same(v, table[i].V) {
					viol(nc, "%s: %s step %d returned %s=%s without error, written %s=%s", what, name, i, keyStr(k), recStr(v), keyStr(table[i].K), recStr(table[i].V))
					return
				}
			}
		}
		it, err := rd.Scan()
		scanCheck("Scan", it, err, 0)
		it, err = rd.ScanRange(table[0].K, table[len(table)-1].K)
		scanCheck("ScanRange(all)", it, err, 0)
		it, err = rd.ScanStartingAt(table[1].K)
		scanCheck("ScanStartingAt(second)", it, err, 1)
		getAll("after the scans, ")
		if failed {
			outcome = "opened-some-steps-failed"
		}
	}
	buf := make([]byte, len(orig))
	if cs.OnlyKind == "" || cs.OnlyKind == "byte" {
		for pos := 0; pos < len(orig); pos++ {
			if cs.OnlyKind == "byte" && cs.OnlyPos != pos {
				continue
			}
			var vals []int
			for b := 0; b < 8; b++ {
				vals = append(vals, int(orig[pos])^(1<<uint(b)))
			}
			vals = append(vals, 0x00, 0xff, 0x91, 0x8d, 0x4c)
			seen := map[int]bool{int(orig[pos]): true}
			for _, v := range vals {
				if seen[v] || (cs.OnlyKind == "byte" && cs.OnlyVal != v) {
					continue
				}
				seen[v] = true
				copy(buf, orig)
				buf[pos] = byte(v)
				check(c09Case{OnlyKind: "byte", OnlyPos: pos, OnlyVal: v}, fmt.Sprintf("byte %d %02x->%02x", pos, orig[pos], v), buf)
			}
		}
	}
	if cs.OnlyKind == "" || cs.OnlyKind == "cut" {
		for cut := 0; cut < len(orig); cut++ {
			if cs.OnlyKind == "cut" && cs.OnlyPos != cut {
				continue
			}
			check(c09Case{OnlyKind: "cut", OnlyPos: cut}, fmt.Sprintf("cut at %d of %d", cut, len(orig)), orig[:cut])
		}
	}
	if cs.OnlyKind == "" || cs.OnlyKind == "swap" {
		n := len(table)
		for i := 0; i < n; i++ {
			for j := i + 1; j < n; j++ {
				if cs.OnlyKind == "swap" && cs.OnlyPos != i*10+j {
					continue
				}
				// rebuild the file with records i and j exchanged
				var sw []byte
				sw = append(sw, orig[:8]...)
				order := make([]int, n)
				for k := range order {
					order[k] = k
				}
				order[i], order[j] = order[j], order[i]
				for _, k := range order {
					sw = append(sw, orig[offs[k]:offs[k+1]]...)
				}
				check(c09Case{OnlyKind: "swap", OnlyPos: i*10 + j}, fmt.Sprintf("records %d and %d swapped", i, j), sw)
			}
		}
	}
	os.WriteFile(dataPath, orig, 0o644)
	r.Outcome = fmt.Sprintf("mode=%s ok=%v", cs.Mode, len(r.Viol) == 0)
	if cs.Table == 0 && cs.Comp == 2 && cs.Mode == "read" {
		r.Sample = string(core.J(map[string]any{"table": kvsStr(table), "data_file_bytes": len(orig), "compression": "snappy", "mode": cs.Mode}))
	}
	return r
}

// c09Big: a table of -cs.Table records; for every record (of this shard) one bit of the last value byte is
// flipped; the table is opened and the key read twice.
func c09Big(w *core.WCtx, cs c09Case) core.Result {
	var r core.Result
	n := -cs.Table
	table := make([]kv, n)
	for i := range table {
		table[i] = kv{[]byte(fmt.Sprintf("key-%06d", i)), []byte(fmt.Sprintf("value-of-record-%06d", i))}
	}
	dir := w.Dir()
	if err := writeTable(dir, table, tblW{Writer: "stream", DataComp: 0, IndexComp: 0, WBuf: 4096}); err != nil {
		r.Viol = append(r.Viol, core.Violation{Desc: "cannot build table: " + err.Error()})
		return r
	}
	dataPath := filepath.Join(dir, sstables.DataFileName)
	orig := readAll(dataPath)
	offs := []int{8}
	for range table {
		off := offs[len(offs)-1]
		hl, pl, ok := parseHeaderLen(orig, uint64(off), false)
		if !ok {
			r.Viol = append(r.Viol, core.Violation{Desc: "cannot parse data file layout"})
			return r
		}
		offs = append(offs, off+hl+pl)
	}
	if offs[n] != len(orig) {
		r.Viol = append(r.Viol, core.Violation{Desc: fmt.Sprintf("layout mismatch %d vs %d", offs[n], len(orig))})
		return r
	}
	rc := tblR{Loader: cs.Loader, RBuf: 4096}
	if cs.Mode == "read" {
		rc.SkipOnLoad, rc.VerifyOnRead = true, true
	}
	buf := make([]byte, len(orig))
	for i := cs.OnlyPos; i < n; i += cs.OnlyVal {
		copy(buf, orig)
		pos := offs[i+1] - 1 // last byte of the record = last byte of its value
		buf[pos] ^= 0x01
		os.WriteFile(dataPath, buf, 0o644)
		r.Traces++
		r.Keys = append(r.Keys, core.HashKey("big", fmt.Sprint(n, cs.Mode, i)))
		func() {
			defer func() {
				if p := recover(); p != nil {
					r.Viol = append(r.Viol, core.Violation{Desc: fmt.Sprintf("table of %d records mode=%s, record %d damaged: panic: %v", n, cs.Mode, i, p)})
				}
			}()
			rd, err := openTable(dir, rc)
			r.Evals++
			if err != nil {
				return
			}
			defer rd.Close()
			for round := 0; round < 2; round++ {
				v, err := rd.Get(table[i].K)
				r.Evals++
				if err == nil && !recEq(v, table[i].V) {
					r.Viol = append(r.Viol, core.Violation{Desc: fmt.Sprintf("table of %d records mode=%s: byte %d (last value byte of record %d) altered, the table opened and Get(%s) #%d returned %s without error, written %s",
						n, cs.Mode, pos, i, keyStr(table[i].K), round+1, recStr(v), recStr(table[i].V)), Case: core.J(cs)})
				}
			}
		}()
		if len(r.Viol) > 3 {
			break
		}
	}
	os.WriteFile(dataPath, orig, 0o644)
	r.Outcome = fmt.Sprintf("big mode=%s ok=%v", cs.Mode, len(r.Viol) == 0)
	if cs.OnlyPos == 0 {
		r.Sample = string(core.J(map[string]any{"records": n, "mode": cs.Mode, "damage": "one bit of the last value byte, every record in turn"}))
	}
	return r
}
