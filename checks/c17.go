package checks

import (
	"bytes"
	"encoding/json"
	"errors"
	"fmt"
	"os"
	"path/filepath"
	"strings"
	"time"

	"github.com/thomasjungblut/go-sstables/simpledb"
	"verif/internal/core"
	"verif/internal/ktrace"
	"verif/internal/sess"
)

// C17: a SimpleDB call that returns an error has no effect; string and byte APIs agree.
// Sequential half: observation directly, after rotation+flush, after clean reopen.
// The crash-image observation is added by the E3 engine (c17crash).

type c17 struct{}

func init()            { core.Register(c17{}) }
func (c17) ID() string { return "C17" }

type c17Call struct {
	Op string `json:"op"` // put | del
	K  int    `json:"k"`
	V  int    `json:"v,omitempty"`
}

type c17Case struct {
	Prefix []c17Call `json:"prefix"`
	Len    int       `json:"len"`
	Small  bool      `json:"small,omitempty"` // reduced alphabet
	Only   []c17Call `json:"only,omitempty"`
	Crash  *c02Case  `json:"crash,omitempty"`
	FaultK int       `json:"fault_k,omitempty"` // 1-based index of the client (WAL) system call that fails
	// NoFault: the session is run like an I/O-error session (every Get compared with the reference of acknowledged calls,
	// recovery of the final image) but nothing is injected: the calls fail by themselves (sync WAL over direct I/O)
	NoFault bool `json:"no_fault,omitempty"`
}

func c17Keys() [][]byte {
	return [][]byte{nil, {}, []byte("a"), {0xff, 0xfe}, bytes.Repeat([]byte("K"), 2048)}
}
func c17Vals() [][]byte { return [][]byte{nil, {}, []byte("v"), {0xff, 0xfe}} }

var c17KeyNames = []string{"nil", `""`, "a", "fffe", "K*2048"}
var c17ValNames = []string{"nil", `""`, "v", "fffe"}

func c17Alphabet(small bool) []c17Call {
	keys, vals := []int{0, 1, 2, 3, 4}, []int{0, 1, 2, 3}
	if small {
		keys, vals = []int{0, 1, 2}, []int{0, 1, 2}
	}
	var out []c17Call
	for _, k := range keys {
		for _, v := range vals {
			out = append(out, c17Call{"put", k, v})
		}
	}
	for _, k := range keys {
		out = append(out, c17Call{Op: "del", K: k})
	}
	return out
}

func (c c17) Run(ctx *core.Ctx) error {
	var cases []json.RawMessage
	cases = append(cases, core.J(c17Case{Len: 0}))
	for _, a := range c17Alphabet(false) {
		cases = append(cases, core.J(c17Case{Prefix: []c17Call{a}, Len: 1}), core.J(c17Case{Prefix: []c17Call{a}, Len: 2}))
	}
	for _, a := range c17Alphabet(true) {
		cases = append(cases, core.J(c17Case{Prefix: []c17Call{a}, Len: 3, Small: true}))
	}
	if ctx.Tier == "thorough" {
		for _, a := range c17Alphabet(false) {
			cases = append(cases, core.J(c17Case{Prefix: []c17Call{a}, Len: 3}))
		}
	}
	ctx.Ev.Rule = "every program of up to 2 calls (3 over the reduced alphabet; 3 over the full one in thorough) of put/delete over keys {nil, \"\", a, ff fe, 2 KiB} x values {nil, \"\", v, ff fe}, executed once through the string flavour, once through the byte flavour and (programs of 2 and more calls) once through the byte flavour with a memstore flush after every call, each on a fresh database; per call the error class of both flavours must agree and empty/nil keys or values must be rejected by Put/PutBytes; observations (Get and GetBytes of every key) are taken directly, after a forced rotation + flush, and after a clean Close + Open, and must all equal the reference map in which rejected calls have no effect. distinct = program; non-trivial = the program mixes at least one rejected and one accepted call"
	ctx.CaseTimeout = 0
	rs := ctx.Pmap(cases)
	ctx.Fold(rs, cases)
	for i, r := range rs {
		if r.Died {
			ctx.Report(core.Violation{Desc: "worker died or hung: " + r.DiedMsg, Case: cases[i]})
		}
	}
	return c17CrashHalf(ctx)
}

// c17CrashHalf: the fourth observation point - crash images taken at every system-call boundary of sessions
// that contain a rejected call, recovered by a fresh process (same tracer and oracle as C02: a call that
// returned an error is neither acknowledged nor in flight, so it must have no effect on any image).
func c17CrashHalf(ctx *core.Ctx) error {
	bad := []sess.Op{
		{Op: "putbytes", KNil: true, V: "v"},
		{Op: "putbytes", K: "", V: "v"},
		{Op: "putbytes", K: "a", VNil: true},
		{Op: "putbytes", K: "a", V: ""},
		{Op: "put", K: "", V: "v"},
		{Op: "put", K: "a", V: ""},
		// not rejected but without effect: deleting the empty key is accepted by both flavours and logged
		{Op: "del", K: ""},
	}
	var cases []json.RawMessage
	for _, mem := range []uint64{90, 1 << 30} {
		cfg := sess.Cfg{Mem: mem, Thresh: 10, Ratio: 0.2, RBuf: 4096, WBuf: 16}
		for _, b := range bad {
			for ctxi := 0; ctxi < 3; ctxi++ {
				var ops []sess.Op
				if ctxi >= 1 {
					ops = append(ops, sess.Op{Op: "put", K: "a", V: "I80"})
				}
				ops = append(ops, b)
				if ctxi == 2 {
					ops = append(ops, sess.Op{Op: "put", K: "b", V: "x"})
				}
				ops = append(ops, sess.Op{Op: "close"})
				cases = append(cases, core.J(c17Case{Crash: &c02Case{Name: "c17-rejected-call", Mode: "sync", Sess: mkDBSession(cfg, ops...)}}))
			}
		}
	}
	// "what a key reads as never changes merely because a restart happened", at the numeric boundary of the WAL file names
	cases = append(cases, core.J(c17Case{Crash: &c02Case{Name: "c17-wal-size-rotation-after-nine-rotations", Mode: "sync", Sess: walNumbersSession(false), Tail: true}}))
	// I/O failure as the reason for the error: the k-th WAL system call of the client fails (EIO); the failing call
	// must leave no trace - observed in process (Get after the failed call) and after recovery of the final image
	nio := 0
	for _, mem := range []uint64{90, 1 << 30} {
		cfg := sess.Cfg{Mem: mem, Thresh: 10, Ratio: 0.2, RBuf: 4096, WBuf: 16}
		for _, second := range []sess.Op{{Op: "put", K: "a", V: "y"}, {Op: "del", K: "a"}, {Op: "put", K: "b", V: "I80"}} {
			ops := []sess.Op{{Op: "put", K: "a", V: "x"}, second, {Op: "get", K: "a"}, {Op: "get", K: "b"}, {Op: "put", K: "c", V: "x"}, {Op: "get", K: "a"}, {Op: "get", K: "b"}, {Op: "get", K: "c"}, {Op: "close"}}
			for k := 0; k < 8; k++ {
				cases = append(cases, core.J(c17Case{Crash: &c02Case{Name: "c17-io-error", Mode: "sync", Sess: mkDBSession(cfg, ops...)}, FaultK: k + 1}))
				nio++
			}
		}
	}
	// errors without any fault: the synchronous WAL over direct I/O refuses every append (documented: direct I/O needs
	// block-aligned flushes, which a per-record sync cannot give). Every Put/Delete returns an error and must leave nothing
	// behind - in process, at every crash point, after a clean restart.
	ndirect := 0
	for _, mem := range []uint64{90, 1 << 30} {
		cfg := sess.Cfg{Mem: mem, Thresh: 10, Ratio: 0.2, RBuf: 4096, WBuf: 16, Direct: true}
		c2 := cfg
		plain := sess.Cfg{Mem: mem, Thresh: 10, Ratio: 0.2, RBuf: 4096, WBuf: 16}
		ops := []sess.Op{{Op: "put", K: "a", V: "x"}, {Op: "get", K: "a"}, {Op: "put", K: "b", V: "I80"}, {Op: "del", K: "a"}, {Op: "get", K: "a"}, {Op: "get", K: "b"}, {Op: "close"},
			{Op: "open", Cfg: &c2}, {Op: "get", K: "a"}, {Op: "get", K: "b"}, {Op: "put", K: "c", V: "y"}, {Op: "get", K: "c"}, {Op: "close"},
			{Op: "open", Cfg: &plain}, {Op: "get", K: "a"}, {Op: "get", K: "b"}, {Op: "get", K: "c"}, {Op: "put", K: "c", V: "x"}, {Op: "get", K: "c"}, {Op: "close"}}
		cases = append(cases, core.J(c17Case{Crash: &c02Case{Name: "c17-direct-sync-wal", Mode: "sync", Sess: mkDBSession(cfg, ops...)}, NoFault: true}))
		cases = append(cases, core.J(c17Case{Crash: &c02Case{Name: "c17-direct-sync-wal", Mode: "sync", Sess: mkDBSession(cfg, ops...)}}))
		ndirect += 2
	}
	ctx.Ev.Bounds["direct_io_sync_wal_sessions"] = ndirect
	ctx.Ev.Bounds["io_error_sessions"] = nio
	ctx.Ev.Bounds["crash_sessions"] = len(cases) - nio - ndirect
	ctx.Ev.Notes = append(ctx.Ev.Notes, "crash observation: 6 rejected calls (nil/empty key or value through either flavour) and the accepted Delete of the empty key x {alone, after an accepted put, between two accepted puts} x memstore {90 B, 1 GiB}, run in a traced child; every directory image at a system-call boundary is recovered by a fresh process and must read as the reference without the rejected call")
	rs := ctx.Pmap(cases)
	ctx.Fold(rs, cases)
	for i, r := range rs {
		if r.Died {
			ctx.Report(core.Violation{Desc: "worker died: " + r.DiedMsg, Case: cases[i]})
		}
	}
	return nil
}

func c17ProgStr(p []c17Call) string {
	var s []string
	for _, c := range p {
		if c.Op == "put" {
			s = append(s, fmt.Sprintf("put(%s,%s)", c17KeyNames[c.K], c17ValNames[c.V]))
		} else {
			s = append(s, fmt.Sprintf("del(%s)", c17KeyNames[c.K]))
		}
	}
	return strings.Join(s, " ")
}

func (c c17) Case(w *core.WCtx, payload json.RawMessage) core.Result {
	var cs c17Case
	json.Unmarshal(payload, &cs)
	if cs.Crash != nil && (cs.FaultK > 0 || cs.NoFault) {
		return c.ioErrorCase(w, cs)
	}
	if cs.Crash != nil {
		res := c02{"C02"}.Case(w, core.J(cs.Crash))
		for i := range res.Viol {
			if strings.HasPrefix(res.Viol[i].Sig, "open-fails") {
				res.Viol[i].Sig = "D8-putbytes-unvalidated"
			}
			res.Viol[i].Case = core.J(c17Case{Crash: cs.Crash})
		}
		return res
	}
	var r core.Result
	quietLogs()
	var progs [][]c17Call
	if cs.Only != nil {
		progs = [][]c17Call{cs.Only}
	} else {
		alpha := c17Alphabet(cs.Small)
		cur := append([]c17Call{}, cs.Prefix...)
		var rec func()
		rec = func() {
			if len(cur) == cs.Len {
				progs = append(progs, append([]c17Call{}, cur...))
				return
			}
			for _, a := range alpha {
				cur = append(cur, a)
				rec()
				cur = cur[:len(cur)-1]
			}
		}
		if len(cur) <= cs.Len {
			rec()
		}
	}
	for _, p := range progs {
		if len(r.Viol) >= 6 {
			break
		}
		c.runProgram(w, p, &r)
	}
	r.Outcome = fmt.Sprintf("len=%d ok=%v", cs.Len, len(r.Viol) == 0)
	if cs.Len == 2 && len(cs.Prefix) == 1 && cs.Prefix[0] == (c17Call{"put", 2, 0}) {
		r.Sample = string(core.J(map[string]any{"first_call": "put(a,nil)", "programs_in_case": len(progs), "flavours": []string{"string", "bytes"}, "observation_points": []string{"direct", "after rotation+flush", "after clean reopen"}}))
	}
	return r
}

type c17Obs struct {
	errs []string          // per call: "" = accepted, else error class
	obs  map[string]string // observation point -> printable reads
	fail string
}

func errClass(err error) string {
	switch {
	case err == nil:
		return ""
	case errors.Is(err, simpledb.ErrEmptyKeyValue):
		return "ErrEmptyKeyValue"
	case errors.Is(err, simpledb.ErrNotFound):
		return "ErrNotFound"
	default:
		return "error"
	}
}

func (c c17) runFlavour(dir string, prog []c17Call, bytesFlavour bool, flushEach bool, r *core.Result) (o c17Obs) {
	keys, vals := c17Keys(), c17Vals()
	o.obs = map[string]string{}
	defer func() {
		if p := recover(); p != nil {
			o.fail = fmt.Sprintf("panic: %v", p)
		}
	}()
	cfg := dbCfg{Mem: giB, Thresh: 10, MaxSize: 0, Ratio: 0.2, RBuf: 4096, WBuf: 4096}
	db, err := openDB(dir, cfg)
	if err != nil {
		o.fail = "open: " + err.Error()
		return
	}
	closed := false
	defer func() {
		if !closed {
			db.Close()
		}
	}()
	for _, call := range prog {
		r.Trans++
		var err error
		if call.Op == "put" {
			if bytesFlavour {
				err = db.PutBytes(keys[call.K], vals[call.V])
			} else {
				err = db.Put(string(keys[call.K]), string(vals[call.V]))
			}
		} else {
			if bytesFlavour {
				err = db.DeleteBytes(keys[call.K])
			} else {
				err = db.Delete(string(keys[call.K]))
			}
		}
		o.errs = append(o.errs, errClass(err))
		if flushEach {
			// every call ends up in a table of its own: a later call has to shadow what an older table holds
			if err := db.VerifRotateAndWait(); err != nil {
				o.fail = "rotation failed: " + err.Error()
				return
			}
		}
	}
	read := func() string {
		var b strings.Builder
		for ki, k := range keys {
			if ki == 0 {
				continue // nil and empty are the same bytes; probed as empty below through both flavours
			}
			vb, eb := db.GetBytes(k)
			vs, es := db.Get(string(k))
			r.Evals += 2
			fmt.Fprintf(&b, "%s:", c17KeyNames[ki])
			if errClass(eb) != errClass(es) || (eb == nil && string(vb) != vs) {
				fmt.Fprintf(&b, "FLAVOURS-DISAGREE(GetBytes=%q,%v Get=%q,%v) ", vb, eb, vs, es)
				continue
			}
			if eb != nil {
				fmt.Fprintf(&b, "<%s> ", errClass(eb))
			} else {
				fmt.Fprintf(&b, "%q ", shortBytes(vb))
			}
		}
		return b.String()
	}
	o.obs["direct"] = read()
	if err := db.VerifRotateAndWait(); err != nil {
		o.fail = "rotation failed: " + err.Error()
		return
	}
	o.obs["after-flush"] = read()
	if err := db.Close(); err != nil {
		closed = true
		o.fail = "Close failed: " + err.Error()
		return
	}
	closed = true
	db, err = openDB(dir, cfg)
	if err != nil {
		o.fail = "re-Open after clean Close failed: " + err.Error()
		return
	}
	closed = false
	o.obs["after-reopen"] = read()
	return
}

func shortBytes(b []byte) string {
	if len(b) > 8 {
		return fmt.Sprintf("%s..(%d)", b[:4], len(b))
	}
	return string(b)
}

func (c c17) runProgram(w *core.WCtx, prog []c17Call, r *core.Result) {
	keys, vals := c17Keys(), c17Vals()
	hasBadPut, hasRejected, hasAccepted := false, false, false
	// reference
	ref := map[string][]byte{}
	var wantErr []bool // true = must be rejected; for deletes with empty keys nothing is demanded (nil entry semantics below)
	var free []bool
	for _, call := range prog {
		if call.Op == "put" {
			bad := len(keys[call.K]) == 0 || len(vals[call.V]) == 0
			wantErr = append(wantErr, bad)
			free = append(free, false)
			if bad {
				hasBadPut, hasRejected = true, true
			} else {
				ref[string(keys[call.K])] = vals[call.V]
				hasAccepted = true
			}
		} else {
			wantErr = append(wantErr, false)
			free = append(free, len(keys[call.K]) == 0) // deleting the empty key: accept or reject, but consistently and without effect
			if len(keys[call.K]) > 0 {
				delete(ref, string(keys[call.K]))
				hasAccepted = true
			}
		}
	}
	var want strings.Builder
	for ki, k := range keys {
		if ki == 0 {
			continue
		}
		fmt.Fprintf(&want, "%s:", c17KeyNames[ki])
		if v, ok := ref[string(k)]; ok {
			fmt.Fprintf(&want, "%q ", shortBytes(v))
		} else {
			want.WriteString("<ErrNotFound> ")
		}
	}
	sig := ""
	if hasBadPut {
		sig = "D8-putbytes-unvalidated"
	}
	viol := func(f string, a ...any) {
		if len(r.Viol) < 8 {
			r.Viol = append(r.Viol, core.Violation{Sig: sig, Desc: fmt.Sprintf("[%s]: %s", c17ProgStr(prog), fmt.Sprintf(f, a...)), Case: core.J(c17Case{Only: prog})})
		}
	}
	var res [3]c17Obs
	for f := 0; f < 3; f++ {
		if f == 2 && len(prog) < 2 {
			res[f] = res[1]
			continue
		}
		dir := w.Dir()
		res[f] = c.runFlavour(dir, prog, f >= 1, f == 2, r)
		os.RemoveAll(dir)
		r.Traces++
	}
	if hasRejected && hasAccepted {
		r.Keys = append(r.Keys, core.HashKey(c17ProgStr(prog)))
	}
	names := []string{"string", "bytes", "bytes (memstore flushed after every call)"}
	for f := 0; f < 3; f++ {
		o := res[f]
		for i := range o.errs {
			r.Evals++
			if free[i] {
				continue
			}
			if wantErr[i] && o.errs[i] == "" {
				viol("%s flavour: call %d has an empty/nil key or value but was accepted", names[f], i)
			}
			if !wantErr[i] && o.errs[i] != "" {
				viol("%s flavour: valid call %d was rejected (%s)", names[f], i, o.errs[i])
			}
		}
		if o.fail != "" {
			viol("%s flavour: %s", names[f], o.fail)
		}
		for _, point := range []string{"direct", "after-flush", "after-reopen"} {
			got, ok := o.obs[point]
			if !ok {
				continue
			}
			r.Evals++
			if got != want.String() {
				viol("%s flavour, observed %s: %s; reference (rejected calls have no effect): %s", names[f], point, got, want.String())
			}
		}
	}
	for i := range res[0].errs {
		if i < len(res[1].errs) && res[0].errs[i] != res[1].errs[i] {
			viol("call %d: string flavour returned %q, byte flavour %q for the same bytes", i, res[0].errs[i], res[1].errs[i])
		}
	}
}

// ioErrorCase: one client WAL system call fails; operations that returned an error must have no effect.
func (c c17) ioErrorCase(w *core.WCtx, cs c17Case) core.Result {
	var r core.Result
	dir := w.Dir()
	dbdir := filepath.Join(dir, "db")
	mustMkdir(dbdir)
	s := cs.Crash.Sess
	sp := writeSession(dir, s)
	opts := ktrace.Options{Dir: dbdir, Argv: []string{binPath("vchild"), "run", dbdir, sp}, HangAfter: 10 * time.Second}
	name := fmt.Sprintf("session [%s] (calls fail by themselves: synchronous WAL over direct I/O)", sessStr(s))
	if !cs.NoFault {
		opts.Fault = &ktrace.Fault{Classes: []string{"client"}, K: cs.FaultK - 1, Errno: 5, AfterMarker: "OPENED",
			// only the append of a mutation itself: a record write to an existing WAL file (not the 8-byte header of a new one).
			// Failures of the WAL rotation that a Put triggers after it was applied are a different matter, see DESIGN.md 1.2
			Filter: func(e ktrace.Event) bool { return e.Nr == "write" && e.Bytes != 8 }}
		name = fmt.Sprintf("session [%s] with the client's WAL record write #%d after Open failing (EIO)", sessStr(s), cs.FaultK)
	}
	tr := ktrace.Run(opts)
	viol := func(f string, a ...any) {
		if len(r.Viol) < 4 {
			r.Viol = append(r.Viol, core.Violation{Desc: name + ": " + fmt.Sprintf(f, a...), Case: core.J(cs)})
		}
	}
	if tr.Err != nil {
		viol("tracer: %v", tr.Err)
		return r
	}
	var failed *ktrace.Event
	for i := range tr.Events {
		if tr.Events[i].Failed {
			failed = &tr.Events[i]
		}
	}
	if failed == nil && !cs.NoFault {
		r.Outcome = "fault position beyond the last client call"
		return r
	}
	if failed == nil {
		failed = &ktrace.Event{Nr: "-", Path: "-"}
	}
	r.Traces++
	r.Trans = int64(len(tr.Events))
	r.Key = core.HashKey(name)
	// walk the markers: reference = operations that were acknowledged; every Get must agree with it
	ref := map[string]string{}
	rejected := 0
	for _, e := range tr.Events {
		if e.Kind != "marker" {
			continue
		}
		var i int
		switch {
		case strings.HasPrefix(e.Marker, "A "):
			fmt.Sscanf(e.Marker, "A %d", &i)
			op := s.Ops[i]
			if op.Op == "put" {
				ref[op.K] = dumpEncode(sess.Value(op.V))
			} else if op.Op == "del" {
				delete(ref, op.K)
			}
		case strings.HasPrefix(e.Marker, "E "):
			rejected++
		case strings.HasPrefix(e.Marker, "G "):
			parts := strings.SplitN(e.Marker, " ", 3)
			fmt.Sscan(parts[1], &i)
			want, ok := ref[s.Ops[i].K]
			got := parts[2]
			r.Evals++
			if (!ok && got != "-") || (ok && got != "="+want) {
				viol("Get(%s) after %d call(s) returned an error reads %q, the reference without the failed call(s) says %q (found=%v)", s.Ops[i].K, rejected, got, want, ok)
			}
		}
	}
	if r.Extra == nil {
		r.Extra = map[string]int64{}
	}
	r.Extra[fmt.Sprintf("io_error_runs_with_%d_rejected_calls", rejected)]++
	if tr.Hung {
		viol("the process neither stopped nor returned after the injected failure of %s %s", failed.Nr, failed.Path)
		return r
	}
	// and after recovery of what is on disk
	sits := situations(tr)
	final := sits[len(sits)-1]
	d, exit, stderr, err := recoverImage(tr, tr.Images[tr.FinalImage], filepath.Join(dir, "rec"), crashKeys)
	r.Evals++
	switch {
	case err != nil:
		viol("harness: %v", err)
	case exit != 0 || d.OpenErr != "":
		viol("after the failed call the directory cannot be re-opened: exit %d %s %s", exit, d.OpenErr, stderr)
	default:
		ok, wants := c02{"C02"}.acceptable(c02Case{Mode: "sync", Sess: s}, final, dumpMap(d))
		if !ok {
			viol("after recovery the directory reads %s, acceptable: %s", mapStr(dumpMap(d)), strings.Join(wants, " or "))
		}
	}
	r.Outcome = fmt.Sprintf("io-error rejected=%d", rejected)
	return r
}
