package checks

import (
	"bytes"
	"errors"
	"fmt"
	"sort"

	"github.com/thomasjungblut/go-sstables/recordio"
	"github.com/thomasjungblut/go-sstables/skiplist"
	"github.com/thomasjungblut/go-sstables/sstables"
)

// shared SSTable helpers (C03 C08 C09 C11 C15)

type kv struct {
	K []byte `json:"k"`
	V []byte `json:"v"` // nil = nil value (tombstone)
}

type tblW struct {
	Writer    string `json:"writer"` // "stream" | "skiplist"
	DataComp  int    `json:"dc"`
	IndexComp int    `json:"ic"`
	BloomN    uint64 `json:"bloom"`         // 0 = library default
	WBuf      int    `json:"wbuf"`          // 0 = library default
	Cmp       string `json:"cmp,omitempty"` // "" = bytes, "fold" = ASCII case-insensitive
}

// foldComparator orders keys ignoring ASCII case: a consistent total preorder in which keys that differ as bytes
// can be equal, as the Comparator contract allows.
type foldComparator struct{}

func (foldComparator) Compare(a, b []byte) int {
	return bytes.Compare(bytes.ToLower(a), bytes.ToLower(b))
}

func cmpFor(name string) skiplist.Comparator[[]byte] {
	if name == "fold" {
		return foldComparator{}
	}
	return skiplist.BytesComparator{}
}

type tblR struct {
	Loader       string `json:"loader"` // "default" | "slice" | "skiplist" | "map4" | "disk"
	RBuf         int    `json:"rbuf"`
	VerifyOnRead bool   `json:"vor,omitempty"`
	SkipOnLoad   bool   `json:"sol,omitempty"`
	Cmp          string `json:"cmp,omitempty"`
}

func writeTable(dir string, kvs []kv, c tblW) error {
	opts := []sstables.WriterOption{
		sstables.WriteBasePath(dir),
		sstables.WithKeyComparator(cmpFor(c.Cmp)),
		sstables.DataCompressionType(c.DataComp),
		sstables.IndexCompressionType(c.IndexComp),
	}
	if c.BloomN > 0 {
		opts = append(opts, sstables.BloomExpectedNumberOfElements(c.BloomN))
	}
	if c.Writer == "skiplist" {
		m := skiplist.NewSkipListMap[[]byte, []byte](cmpFor(c.Cmp))
		// insert in reverse to make sure the writer relies on the map's order
		for i := len(kvs) - 1; i >= 0; i-- {
			m.Insert(kvs[i].K, kvs[i].V)
		}
		w, err := sstables.NewSSTableSimpleWriter(opts...)
		if err != nil {
			return err
		}
		return w.WriteSkipListMap(m)
	}
	if c.WBuf > 0 {
		opts = append(opts, sstables.WriteBufferSizeBytes(c.WBuf))
	}
	w, err := sstables.NewSSTableStreamWriter(opts...)
	if err != nil {
		return err
	}
	if err := w.Open(); err != nil {
		return err
	}
	for _, e := range kvs {
		if err := w.WriteNext(e.K, e.V); err != nil {
			w.Close()
			return err
		}
	}
	return w.Close()
}

func openTable(dir string, c tblR) (sstables.SSTableReaderI, error) {
	opts := []sstables.ReadOption{sstables.ReadBasePath(dir), sstables.ReadWithKeyComparator(cmpFor(c.Cmp))}
	if c.RBuf > 0 {
		opts = append(opts, sstables.ReadBufferSizeBytes(c.RBuf))
	}
	rb := c.RBuf
	if rb == 0 {
		rb = 4 * 1024 * 1024
	}
	switch c.Loader {
	case "", "default":
	case "slice":
		opts = append(opts, sstables.ReadIndexLoader(&sstables.SliceKeyIndexLoader{ReadBufferSize: rb}))
	case "skiplist":
		opts = append(opts, sstables.ReadIndexLoader(&sstables.SkipListIndexLoader{KeyComparator: cmpFor(c.Cmp), ReadBufferSize: rb}))
	case "map4":
		opts = append(opts, sstables.ReadIndexLoader(&sstables.MapKeyIndexLoader[[4]byte]{ReadBufferSize: rb, Mapper: &sstables.Byte4KeyMapper{}}))
	case "disk":
		opts = append(opts, sstables.ReadIndexLoader(&sstables.DiskIndexLoader{}))
	default:
		panic("loader " + c.Loader)
	}
	if c.VerifyOnRead {
		opts = append(opts, sstables.EnableHashCheckOnReads())
	}
	if c.SkipOnLoad {
		opts = append(opts, sstables.SkipHashCheckOnLoad())
	}
	return sstables.NewSSTableReader(opts...)
}

// drain reads an iterator to the end; limit protects against non-termination. The returned slices are kept as they were
// handed out (not copied) and only looked at after the iteration: a pair belongs to the caller once Next has returned it,
// so a later Next must not change it.
func drain(it sstables.SSTableIteratorI, limit int) (out []kv, err error) {
	for i := 0; i < limit; i++ {
		k, v, e := it.Next()
		if e != nil {
			if errors.Is(e, sstables.Done) {
				return out, nil
			}
			return out, e
		}
		out = append(out, kv{k, v})
	}
	return out, fmt.Errorf("iterator did not terminate after %d steps", limit)
}

func cloneVal(v []byte) []byte {
	if v == nil {
		return nil
	}
	return append([]byte{}, v...)
}

func kvsEq(a, b []kv) bool {
	if len(a) != len(b) {
		return false
	}
	for i := range a {
		if !bytes.Equal(a[i].K, b[i].K) || !recEq(a[i].V, b[i].V) {
			return false
		}
	}
	return true
}

func kvsStr(a []kv) string {
	s := "["
	for i, e := range a {
		if i > 0 {
			s += " "
		}
		s += keyStr(e.K) + "=" + recStr(e.V)
	}
	return s + "]"
}

func keyStr(k []byte) string {
	if len(k) > 8 {
		return fmt.Sprintf("%q..(%d)", k[:4], len(k))
	}
	return fmt.Sprintf("%q", k)
}

func sortKVs(a []kv) {
	sort.Slice(a, func(i, j int) bool { return bytes.Compare(a[i].K, a[j].K) < 0 })
}

func rangeOf(sorted []kv, lo, hi []byte, hasHi bool) []kv {
	var out []kv
	for _, e := range sorted {
		if bytes.Compare(e.K, lo) >= 0 && (!hasHi || bytes.Compare(e.K, hi) <= 0) {
			out = append(out, e)
		}
	}
	return out
}

type mismatch struct {
	Sig  string
	Desc string
}

// probeSortedMap compares a reader with the sorted list of pairs it must contain.
func probeSortedMap(rd sstables.SSTableReaderI, sorted []kv, probes [][]byte, loader string, evals *int64) (bad []mismatch) {
	add := func(sig, f string, a ...any) { bad = append(bad, mismatch{sig, fmt.Sprintf(f, a...)}) }
	find := func(k []byte) *kv {
		for i := range sorted {
			if bytes.Equal(sorted[i].K, k) {
				return &sorted[i]
			}
		}
		return nil
	}
	var minK []byte
	if len(sorted) > 0 {
		minK = sorted[0].K
	}
	diskSig := func(kind string, lo, hi []byte) string {
		if loader != "disk" {
			return ""
		}
		switch kind {
		case "range":
			if len(sorted) > 0 && bytes.Compare(hi, minK) < 0 {
				return "D7b-disk-index-range-below-min"
			}
		case "contains", "get":
			if find(lo) != nil {
				return "D7a-disk-index-eof-probe" // false negative / failed read for a present key
			}
			return "D7c-disk-index-cached-eof"
		}
		return ""
	}
	_ = minK
	for _, p := range probes {
		*evals += 2
		want := find(p)
		c, err := rd.Contains(p)
		if err != nil || c != (want != nil) {
			add(diskSig("contains", p, nil), "Contains(%s)=%v,%v want %v", keyStr(p), c, err, want != nil)
		}
		v, err := rd.Get(p)
		if want == nil {
			if !errors.Is(err, sstables.NotFound) {
				add(diskSig("get", p, nil), "Get(%s)=%s,%v want NotFound", keyStr(p), recStr(v), err)
			}
		} else if err != nil || !recEq(v, want.V) {
			add(diskSig("get", p, nil), "Get(%s)=%s,%v want %s", keyStr(p), recStr(v), err, recStr(want.V))
		}
	}
	*evals++
	it, err := rd.Scan()
	if err != nil {
		add("", "Scan() error %v", err)
	} else if got, err := drain(it, len(sorted)+3); err != nil || !kvsEq(got, sorted) {
		add("", "Scan()=%s,%v want %s", kvsStr(got), err, kvsStr(sorted))
	}
	// scans are independent of one another: a scan that is abandoned after two pairs, then two further complete ones
	*evals += 3
	if it0, err := rd.Scan(); err == nil {
		it0.Next()
		it0.Next()
	}
	for round := 2; round <= 3; round++ {
		it, err := rd.Scan()
		if err != nil {
			add("", "Scan() #%d error %v", round, err)
		} else if got, err := drain(it, len(sorted)+3); err != nil || !kvsEq(got, sorted) {
			add("", "Scan() #%d (after an abandoned and %d complete scans of the same reader)=%s,%v want %s", round, round-1, kvsStr(got), err, kvsStr(sorted))
		}
	}
	for _, p := range probes {
		*evals++
		it, err := rd.ScanStartingAt(p)
		want := rangeOf(sorted, p, nil, false)
		if err != nil {
			add(diskSig("start", p, nil), "ScanStartingAt(%s) error %v", keyStr(p), err)
		} else if got, err := drain(it, len(sorted)+3); err != nil || !kvsEq(got, want) {
			add(diskSig("start", p, nil), "ScanStartingAt(%s)=%s,%v want %s", keyStr(p), kvsStr(got), err, kvsStr(want))
		}
	}
	for _, lo := range probes {
		for _, hi := range probes {
			*evals++
			it, err := rd.ScanRange(lo, hi)
			if bytes.Compare(lo, hi) > 0 {
				if err == nil {
					add("", "ScanRange(%s,%s) with lower > upper accepted", keyStr(lo), keyStr(hi))
				}
				continue
			}
			want := rangeOf(sorted, lo, hi, true)
			if err != nil {
				add(diskSig("range", lo, hi), "ScanRange(%s,%s) error %v", keyStr(lo), keyStr(hi), err)
			} else if got, err := drain(it, len(sorted)+3); err != nil || !kvsEq(got, want) {
				add(diskSig("range", lo, hi), "ScanRange(%s,%s)=%s,%v want %s", keyStr(lo), keyStr(hi), kvsStr(got), err, kvsStr(want))
			}
		}
	}
	// a reader may carry state between calls (offset caches, reused scratch entries): the point lookups must give the
	// same answers after all those scans as they did before
	// this round hands every key over in one reused caller buffer that is overwritten after each call: a key slice
	// belongs to the caller again once the call has returned
	scratch := make([]byte, 0, 1024)
	lend := func(p []byte) []byte {
		if p == nil || len(p) > cap(scratch) {
			return p
		}
		return append(scratch[:0], p...)
	}
	scribble := func() {
		for i := range scratch[:cap(scratch)] {
			scratch[:cap(scratch)][i] = 0xEE
		}
	}
	for _, p := range probes {
		*evals += 2
		want := find(p)
		c, err := rd.Contains(lend(p))
		scribble()
		if err != nil || c != (want != nil) {
			add("", "after the scans: Contains(%s)=%v,%v want %v", keyStr(p), c, err, want != nil)
		}
		v, err := rd.Get(lend(p))
		scribble()
		if want == nil {
			if !errors.Is(err, sstables.NotFound) {
				add("", "after the scans: Get(%s)=%s,%v want NotFound", keyStr(p), recStr(v), err)
			}
		} else if err != nil || !recEq(v, want.V) {
			add("", "after the scans: Get(%s)=%s,%v want %s", keyStr(p), recStr(v), err, recStr(want.V))
		}
	}
	return bad
}

var _ = recordio.CompressionTypeNone
