package checks

import (
	"encoding/json"
	"fmt"
	"os"
	"path/filepath"
	"time"

	"github.com/thomasjungblut/go-sstables/simpledb"
	"verif/internal/core"
)

// C01: SimpleDB reads like a map, whatever flushes, compactions and restarts happen.
// C06 shares the executor (compaction clauses are checked around every Compact op).

type c01 struct{ id string }

func init() {
	core.Register(c01{"C01"})
	core.Register(c01{"C06"})
}
func (c c01) ID() string { return c.id }

type c01Case struct {
	Flavor string `json:"flavor"` // "C01" | "C06": selects the configuration set and alphabet
	Init   int    `json:"init"`
	Path   []dbOp `json:"path"`
	Ops    []dbOp `json:"ops"` // successors to try
	// CheckAll: compare all reads with the reference after every operation of the program, not only after the last
	CheckAll bool `json:"check_all,omitempty"`
	// Legacy > 0: the directory starts with legacy fixture table Legacy-1 as its oldest table
	Legacy int `json:"legacy,omitempty"`
}

const giB = 1024 * 1024 * 1024

func c01Cfgs(flavor, tier string) []dbCfg {
	if flavor == "C06" {
		// concentrated on selection: max size below / between / above the table sizes, ratio, threshold
		c := []dbCfg{
			{Mem: giB, Thresh: 0, MaxSize: 200, Ratio: 1.0, RBuf: 4096, WBuf: 4096},
			{Mem: giB, Thresh: 1, MaxSize: 200, Ratio: 0.5, RBuf: 4096, WBuf: 4096},
			{Mem: giB, Thresh: 0, MaxSize: 5 * giB, Ratio: 1.0, RBuf: 4096, WBuf: 4096},
			{Mem: giB, Thresh: 1, MaxSize: 1, Ratio: 0.5, RBuf: 4096, WBuf: 4096},
			// no size-based selection at all and no minimum count: tables are picked by tombstone ratio only
			{Mem: giB, Thresh: 0, MaxSize: 1, Ratio: 0.5, RBuf: 4096, WBuf: 4096},
		}
		if tier == "thorough" {
			c = append(c, dbCfg{Mem: giB, Thresh: 2, MaxSize: 200, Ratio: 1.0, RBuf: 7, WBuf: 7},
				dbCfg{Mem: giB, Thresh: 0, MaxSize: 1, Ratio: 0.0, RBuf: 4096, WBuf: 4096})
		}
		return c
	}
	c := []dbCfg{
		{Mem: 1, Thresh: 0, MaxSize: 200, Ratio: 1.0, RBuf: 7, WBuf: 7},
		{Mem: 100, Thresh: 2, MaxSize: 5 * giB, Ratio: 0.2, RBuf: 4096, WBuf: 4096},
		{Mem: giB, Thresh: 1, MaxSize: 200, Ratio: 0.5, RBuf: 4096, WBuf: 4096},
		{Mem: 1024, Thresh: 0, MaxSize: 5 * giB, Ratio: 0.0, RBuf: 16, WBuf: 4096},
	}
	if tier == "thorough" {
		c = append(c, dbCfg{Mem: 0, Thresh: 10, MaxSize: 0, Ratio: 0.2, RBuf: 0, WBuf: 0}, // library defaults
			dbCfg{Mem: 100, Thresh: 0, MaxSize: 1, Ratio: 0.5, RBuf: 4096, WBuf: 16})
	}
	return c
}

func c01Alphabet(flavor, tier string, ncfg int) []dbOp {
	var ops []dbOp
	for k := 0; k < 2; k++ {
		for v := 0; v < 2; v++ {
			ops = append(ops, dbOp{Op: "put", K: k, V: v})
		}
	}
	if flavor == "C06" {
		// table lineages are what matters here: every put/delete of this alphabet is followed by a rotation + flush
		// (one table per operation), so a depth-5 program reaches 5-table lineages; two plain operations keep the
		// memstore-over-table shadowing in play
		ops = nil
		for k := 0; k < 2; k++ {
			for v := 0; v < 2; v++ {
				ops = append(ops, dbOp{Op: "putrot", K: k, V: v})
			}
		}
		ops = append(ops, dbOp{Op: "putrot", K: 2, V: 0}, dbOp{Op: "delrot", K: 0}, dbOp{Op: "delrot", K: 1})
		ops = append(ops, dbOp{Op: "cmp"}, dbOp{Op: "put", K: 0, V: 0}, dbOp{Op: "del", K: 0})
		for c := 0; c < ncfg; c++ {
			ops = append(ops, dbOp{Op: "reopen", C: c})
		}
		return ops
	}
	ops = append(ops, dbOp{Op: "del", K: 0}, dbOp{Op: "del", K: 1})
	ops = append(ops, dbOp{Op: "rot"}, dbOp{Op: "cmp"})
	for c := 0; c < ncfg; c++ {
		ops = append(ops, dbOp{Op: "reopen", C: c})
	}
	ops = append(ops, dbOp{Op: "churn", K: 0})
	return ops
}

func (c c01) Run(ctx *core.Ctx) error {
	flavor := c.id
	cfgs := c01Cfgs(flavor, ctx.Tier)
	alpha := c01Alphabet(flavor, ctx.Tier, len(cfgs))
	maxDepth := 4
	budget := 150 * time.Second
	// (C06's alphabet creates one table per operation: depth 4 already reaches 4-table lineages)
	if ctx.Tier == "thorough" {
		maxDepth += 2
		budget = 40 * time.Minute
	}
	ctx.Budget(budget)
	ctx.CaseTimeout = 3 * time.Minute
	ctx.Ev.Rule = "explicit-state BFS over SimpleDB sessions: initial Open with each configuration, then every operation of {Put(a|b, x|300 incompressible bytes), Delete(a|b), forced rotation + wait for the flusher, one synchronous compaction cycle, clean Close + Open with each configuration, Churn(a) = 400 overwrites (size-triggered WAL rotation inside one memstore generation; once per program)} from every distinct canonical state (reference map, both memstores, ordered tables with content/size bucket/tombstone count, WAL file count, configuration); successors are computed by replaying the shortest path on a fresh directory; after every operation Get/GetBytes of all keys and one never-written key are compared with the reference map and every API call must succeed; around every compaction cycle reads must not change and the selected tables must be a gap-free run. non-trivial = every state but the initial ones"
	ctx.Ev.Bounds["configurations"] = cfgs
	ctx.Ev.Bounds["alphabet_size"] = len(alpha)
	ctx.Ev.Assume = []string{"the compaction ticker is disabled; a compaction cycle is an explicit operation that calls the same executeCompaction + reflectCompactionResult pair as the ticker goroutine (tag-guarded helper)",
		"rotation is followed by a flush barrier, so the schedule dimension here is the placement of complete flushes/compactions between operations; interleavings inside them are C05's subject"}
	type node struct {
		init int
		path []dbOp
	}
	seen := map[string]bool{}
	var frontier []node
	for i := range cfgs {
		frontier = append(frontier, node{i, nil})
	}
	completed := 0
	for depth := 1; depth <= maxDepth && len(frontier) > 0; depth++ {
		if ctx.OverBudget() {
			ctx.Ev.Exhaustive = false
			ctx.Ev.Notes = append(ctx.Ev.Notes, fmt.Sprintf("budget reached before depth %d (frontier %d states); depth %d is fully covered", depth, len(frontier), completed))
			break
		}
		var cases []json.RawMessage
		for _, n := range frontier {
			ops := alpha
			// Churn at most once per program
			for _, o := range n.path {
				if o.Op == "churn" {
					ops = nil
					for _, a := range alpha {
						if a.Op != "churn" {
							ops = append(ops, a)
						}
					}
				}
			}
			cases = append(cases, core.J(c01Case{Flavor: flavor, Init: n.init, Path: n.path, Ops: ops}))
		}
		rs := ctx.Pmap(cases)
		ctx.Fold(rs, cases)
		var next []node
		for i, r := range rs {
			if r.Died {
				sig := ""
				ctx.Report(core.Violation{Sig: sig, Desc: fmt.Sprintf("process died or hung while executing a successor of [%s]: %s", dbProgStr(frontier[i].init, frontier[i].path), r.DiedMsg), Case: cases[i]})
				continue
			}
			var out struct {
				Keys []string `json:"keys"`
				Ops  []dbOp   `json:"ops"`
			}
			json.Unmarshal(r.Out, &out)
			for j, k := range out.Keys {
				if k == "" || seen[k] {
					continue
				}
				seen[k] = true
				next = append(next, node{frontier[i].init, append(append([]dbOp{}, frontier[i].path...), out.Ops[j])})
			}
		}
		completed = depth
		ctx.Ev.Bounds[fmt.Sprintf("new_states_at_depth_%d", depth)] = len(next)
		frontier = next
	}
	ctx.Ev.Bounds["depth_completed"] = completed
	ctx.Ev.Bounds["max_depth"] = maxDepth
	if flavor == "C06" {
		c.lineages(ctx, cfgs, true)
	} else {
		// the map clause over deep compaction histories: the interleaved flush/compaction words of C06 (under its
		// selection-oriented configurations), reads compared with the reference after every step
		c.lineages(ctx, c01Cfgs("C06", ctx.Tier), false)
	}
	return nil
}

// lineages: beyond the BFS depth, every table lineage of k tables (one operation+flush per table) is built directly
// and compacted: cycle, second cycle, restart - each with the compaction clauses checked around every cycle.
func (c c01) lineages(ctx *core.Ctx, cfgs []dbCfg, all bool) {
	k := 5
	ops := []dbOp{{Op: "putrot", K: 0, V: 0}, {Op: "putrot", K: 0, V: 1}, {Op: "delrot", K: 0}}
	if ctx.Tier == "thorough" {
		k = 6
		ops = append(ops, dbOp{Op: "putrot", K: 1, V: 0})
	}
	var lins [][]dbOp
	cur := []dbOp{}
	var rec func()
	rec = func() {
		if len(cur) == k {
			lins = append(lins, append([]dbOp{}, cur...))
			return
		}
		for _, o := range ops {
			cur = append(cur, o)
			rec()
			cur = cur[:len(cur)-1]
		}
	}
	rec()
	var cases []json.RawMessage
	if !all {
		lins = nil
	}
	for _, l := range lins {
		for ci := range cfgs {
			cmp := dbOp{Op: "cmp"}
			// L + Compact (checked), then from L+Compact: a second cycle, and a restart with the same configuration
			cases = append(cases, core.J(c01Case{Flavor: "C06", Init: ci, Path: l, Ops: []dbOp{cmp}}))
			cases = append(cases, core.J(c01Case{Flavor: "C06", Init: ci, Path: append(append([]dbOp{}, l...), cmp), Ops: []dbOp{cmp, {Op: "reopen", C: ci}}}))
		}
	}
	// interleaved histories: every word T^i Compact T^j Compact [T^k Compact] Flush(c) Reopen with at most nt single-key tables
	// in total, each T one of {Put(a|b, x|Y300), Put(a, W300), Delete(a|b)} followed by a flush (and the single-cycle words with the maximal number of tables); reads are compared with the reference
	// after every step (and around every cycle)
	nt, nc := 4, 2
	if ctx.Tier == "thorough" {
		nt, nc = 5, 3
	}
	var topts []dbOp
	for kk := 0; kk < 2; kk++ {
		topts = append(topts, dbOp{Op: "putrot", K: kk, V: 0}, dbOp{Op: "putrot", K: kk, V: 1}, dbOp{Op: "delrot", K: kk})
	}
	// a second large value for a: two large (unselected) tables that hold different values of one key
	topts = append(topts, dbOp{Op: "putrot", K: 0, V: 3})
	// a tombstone for the empty key (Delete accepts it) in a table of its own
	topts = append(topts, dbOp{Op: "delrot", K: dbEmptyKey})
	nwords := 0
	var words func(cur []dbOp, tUsed, cUsed int)
	words = func(cur []dbOp, tUsed, cUsed int) {
		if (cUsed >= 2 || (cUsed == 1 && tUsed == nt)) && cur[len(cur)-1].Op == "cmp" {
			for ci := range cfgs {
				if ctx.Tier != "thorough" && (ci == 2 || ci == 3) {
					continue // quick: the three configurations under which a cycle can exclude the oldest table
				}
				// after the last cycle one more flush of an unrelated key (the memstore that was flushed last keeps answering
				// reads in front of the tables, which would mask what the cycle did to them), then a restart
				prog := append(append([]dbOp{}, cur...), dbOp{Op: "putrot", K: 2, V: 0}, dbOp{Op: "reopen", C: ci})
				cases = append(cases, core.J(c01Case{Flavor: "C06", Init: ci, Path: prog[:len(prog)-1], Ops: prog[len(prog)-1:], CheckAll: true}))
			}
			nwords++
		}
		ntHere := nt
		if cUsed >= 2 && nc > 2 {
			ntHere = nt - 1 // thorough: histories with a third cycle use one table less
		}
		if tUsed < ntHere {
			special := 0
			for _, c := range cur {
				if (c.Op == "putrot" && c.V == 3) || (c.Op == "delrot" && c.K == dbEmptyKey) {
					special++
				}
			}
			for _, o := range topts {
				// the two special tables (second large value, empty-key tombstone) appear at most once per history, and only
				// among the first three tables - except the second large value as the fourth table of a single-cycle history
				isW := o.Op == "putrot" && o.V == 3
				isE := o.Op == "delrot" && o.K == dbEmptyKey
				if (isW || isE) && ctx.Tier != "thorough" {
					if special > 0 {
						continue
					}
					if tUsed+1 > 3 && !(isW && cUsed == 0) {
						continue
					}
				} else if (isW || isE) && special > 0 {
					continue
				}
				words(append(cur, o), tUsed+1, cUsed)
			}
		}
		if cUsed < nc && len(cur) > 0 && cur[len(cur)-1].Op != "cmp" {
			words(append(cur, dbOp{Op: "cmp"}), tUsed, cUsed+1)
		}
	}
	words(nil, 0, 0)
	ctx.Ev.Bounds["interleaved_histories"] = fmt.Sprintf("%d words with <= %d tables and 2..%d compaction cycles x %d configurations", nwords, nt, nc, map[bool]int{true: len(cfgs), false: 3}[ctx.Tier == "thorough"])
	// directories that start with a table written by an earlier version of the library
	nleg := 0
	lopts := []dbOp{{Op: "putrot", K: 3, V: 0}, {Op: "delrot", K: 3}, {Op: "putrot", K: 0, V: 0}}
	for fi, fx := range legacyTables() {
		if !all {
			break
		}
		if len(fx.KVs) != 7 {
			continue // the fixture with an empty value: SimpleDB reserves the empty value for deletions
		}
		var lw [][]dbOp
		lw = append(lw, []dbOp{})
		for _, o1 := range lopts {
			lw = append(lw, []dbOp{o1})
			for _, o2 := range lopts {
				lw = append(lw, []dbOp{o1, o2})
			}
		}
		for _, wd := range lw {
			for ci := range cfgs {
				prog := append(append([]dbOp{}, wd...), dbOp{Op: "cmp"}, dbOp{Op: "cmp"}, dbOp{Op: "reopen", C: ci})
				cases = append(cases, core.J(c01Case{Flavor: "C06", Init: ci, Path: prog[:len(prog)-1], Ops: prog[len(prog)-1:], CheckAll: true, Legacy: fi + 1}))
				nleg++
			}
		}
	}
	ctx.Ev.Bounds["legacy_lineages"] = fmt.Sprintf("%d sessions: each 7-key legacy fixture table as the oldest table, then every word of <= 2 steps over {Put(L3,x), Delete(L3), Put(a,x)}+flush, Compact, Compact, Reopen", nleg)
	// long histories around numeric boundaries (file numbers reaching two digits, more tables in one cycle than any
	// fan-in, WAL files numbered 8, 9, 10 while one memstore generation owns several of them)
	nlong := 0
	for n := 1; n <= 20; n++ {
		for _, ci := range []int{0, 2} {
			prog := []dbOp{{Op: "putrot", K: 0, V: 0}, {Op: "delrot", K: 0}}
			for j := 0; j < n; j++ {
				prog = append(prog, dbOp{Op: "putrot", K: 1 + j%2, V: 0})
			}
			prog = append(prog, dbOp{Op: "cmp"}, dbOp{Op: "putrot", K: 2, V: 0}, dbOp{Op: "reopen", C: ci})
			cases = append(cases, core.J(c01Case{Flavor: "C06", Init: ci, Path: prog[:len(prog)-1], Ops: prog[len(prog)-1:], CheckAll: true}))
			nlong++
		}
	}
	// the deletion at table position p of n tables (the value in table 1): whatever subset of a large selection a cycle
	// really merges, the tombstone must survive as long as the value's table is not part of it
	for n := 16; n <= 20; n++ {
		for p := 3; p <= 6; p++ {
			prog := []dbOp{{Op: "putrot", K: 0, V: 0}}
			for j := 2; j <= n; j++ {
				if j == p {
					prog = append(prog, dbOp{Op: "delrot", K: 0})
				} else {
					prog = append(prog, dbOp{Op: "putrot", K: 1 + j%2, V: 0})
				}
			}
			prog = append(prog, dbOp{Op: "cmp"}, dbOp{Op: "putrot", K: 2, V: 0}, dbOp{Op: "reopen", C: 2})
			cases = append(cases, core.J(c01Case{Flavor: "C06", Init: 2, Path: prog[:len(prog)-1], Ops: prog[len(prog)-1:], CheckAll: true}))
			nlong++
		}
	}
	for n := 4; n <= 12; n++ {
		// n forced rotations, then 400 overwrites of one key under a 100-byte memstore limit (the WAL file rotates by size
		// twice inside that generation), a final overwrite, a flush and a restart - configuration 1 of the C01 set
		var prog []dbOp
		for j := 0; j < n; j++ {
			prog = append(prog, dbOp{Op: "putrot", K: 1 + j%2, V: 0})
		}
		prog = append(prog, dbOp{Op: "churn", K: 0}, dbOp{Op: "put", K: 0, V: 0}, dbOp{Op: "rot"}, dbOp{Op: "reopen", C: 1})
		cases = append(cases, core.J(c01Case{Flavor: "C01", Init: 1, Path: prog[:len(prog)-1], Ops: prog[len(prog)-1:], CheckAll: true}))
		nlong++
	}
	ctx.Ev.Bounds["long_histories"] = fmt.Sprintf("%d: Put(a) Delete(a) + n flushes of other keys (n = 1..20) + Compact + flush + Reopen under two configurations; 16..20 tables with the deletion in table 3..6; n = 4..12 forced rotations + 400 overwrites + Put + flush + Reopen under a 100-byte memstore limit", nlong)
	ctx.Ev.Bounds["lineage_tables"] = k
	ctx.Ev.Bounds["lineages"] = len(lins)
	if all {
		ctx.Ev.Notes = append(ctx.Ev.Notes, fmt.Sprintf("lineage enumeration: every sequence of %d operation+flush steps over %d operations (one table each) x %d configurations, followed by Compact, by Compact Compact and by Compact Reopen", k, len(ops), len(cfgs)))
	}
	rs := ctx.Pmap(cases)
	ctx.Fold(rs, cases)
	for i, r := range rs {
		if r.Died {
			ctx.Report(core.Violation{Desc: "process died or hung in a lineage session: " + r.DiedMsg, Case: cases[i]})
		}
	}
}

func (c c01) Case(w *core.WCtx, payload json.RawMessage) core.Result {
	var cs c01Case
	json.Unmarshal(payload, &cs)
	var r core.Result
	cfgs := c01Cfgs(cs.Flavor, w.Tier)
	var keys []string
	sizeCuts := []uint64{1, 200}
	for _, op := range cs.Ops {
		prog := append(append([]dbOp{}, cs.Path...), op)
		key := c.runSession(w, cfgs, cs, prog, sizeCuts, &r)
		keys = append(keys, key)
		if key != "" {
			r.Keys = append(r.Keys, key)
		}
	}
	r.Out = core.J(map[string]any{"keys": keys, "ops": cs.Ops})
	r.Outcome = fmt.Sprintf("depth=%d ok=%v", len(cs.Path)+1, len(r.Viol) == 0)
	if len(cs.Path) == 2 && cs.Path[0].Op == "put" && cs.Path[1].Op == "rot" {
		r.Sample = string(core.J(map[string]any{"program_prefix": dbProgStr(cs.Init, cs.Path), "successors_tried": len(cs.Ops), "config": cfgs[cs.Init]}))
	}
	return r
}

// runSession replays prog on a fresh directory, checks the last op, returns the canonical key ("" on failure).
func (c c01) runSession(w *core.WCtx, cfgs []dbCfg, cs c01Case, prog []dbOp, sizeCuts []uint64, r *core.Result) (key string) {
	dir := w.Dir()
	defer os.RemoveAll(dir)
	d13, d11 := false, false
	viol := func(sig, f string, a ...any) {
		if len(r.Viol) < 10 {
			r.Viol = append(r.Viol, core.Violation{Sig: sig, Desc: fmt.Sprintf("[%s] (cfg %+v): %s", dbProgStr(cs.Init, prog), cfgs[cs.Init], fmt.Sprintf(f, a...)),
				Case: core.J(c01Case{Flavor: cs.Flavor, Init: cs.Init, Path: prog[:len(prog)-1], Ops: prog[len(prog)-1:], CheckAll: cs.CheckAll, Legacy: cs.Legacy})})
		}
	}
	defer func() {
		if p := recover(); p != nil {
			viol("", "panic: %v", p)
			key = ""
		}
	}()
	var seed []legacyFixture
	if cs.Legacy > 0 {
		seed = []legacyFixture{legacyTables()[cs.Legacy-1]}
	}
	s := newSession(dir, cfgs, cs.Init, r, viol, seed...)
	if s == nil {
		return ""
	}
	defer s.close()
	r.Traces++
	for i, op := range prog {
		last := i == len(prog)-1
		nv := len(r.Viol)
		if op.Op == "cmp" {
			tables := s.db.VerifTables()
			sel := s.db.VerifSelect()
			if len(sel) > s.db.VerifCompactionThreshold() && len(tables) > 0 && filepath.Base(sel[0]) != tables[0] {
				d11 = true
			}
		}
		if last || cs.CheckAll {
			s.retain(i)
		}
		if !s.apply(i, op) {
			return ""
		}
		if last || cs.CheckAll {
			s.checkRetained(i, op)
		}
		if s.walRecordsAtClose {
			d13 = true
		}
		if last || cs.CheckAll || len(r.Viol) > nv {
			s.check(i, op, func(k string) string {
				if d13 {
					return "D13-leftover-wal-replayed"
				}
				if _, ok := s.ref[k]; !ok && d11 {
					return "D11-tombstones-dropped-not-from-oldest"
				}
				return ""
			})
		}
		if len(r.Viol) > nv && !last {
			// a prefix that already misbehaves was reported when it was expanded
			return ""
		}
	}
	if len(r.Viol) > 0 {
		return ""
	}
	return core.HashKey(s.canon(sizeCuts))
}

var _ = simpledb.ErrNotFound
