package checks

import (
	"bytes"
	"encoding/json"
	"fmt"
	"go/ast"
	"go/parser"
	"go/token"
	"os"
	"regexp"
	"strings"

	"github.com/kaitai-io/kaitai_struct_go_runtime/kaitai"
	"github.com/thomasjungblut/go-sstables/kaitai/gokaitai"
	"github.com/thomasjungblut/go-sstables/recordio"
	"verif/internal/core"
)

// C20: the published Kaitai schema decodes every written file to the same records.

type c20 struct{}

func init()            { core.Register(c20{}) }
func (c20) ID() string { return "C20" }

type c20Case struct {
	Kind string `json:"kind"` // "file" | "enum"
	Recs []int  `json:"recs,omitempty"`
	Prog []wop  `json:"prog,omitempty"` // writer program with seeks (record indexes into the C20 alphabet)
	Comp int    `json:"comp"`
	WBuf int    `json:"wbuf,omitempty"` // write buffer (0 = 4096)
}

func c20Alphabet() []rioRec {
	return []rioRec{
		{"nil", nil},
		{"empty", []byte{}},
		{"a", []byte("a")},
		{"c300", bytes.Repeat([]byte("abcabcabd"), 34)[:300]},
		{"mk", append([]byte{0x91, 0x8d, 0x4c, 0x00}, 0x91)},
		{"z40", make([]byte, 40)},
		// only used by the dedicated large-record cases (not part of the enumerated alphabet)
		{"i20000", incompressible(20000, 31)},
		{"i2100000", incompressible(2100000, 32)},
		{"i127", incompressible(127, 33)},
		{"i128", incompressible(128, 34)},
		{"i16383", incompressible(16383, 35)},
		{"i16384", incompressible(16384, 36)},
	}
}

func (c c20) Run(ctx *core.Ctx) error {
	maxLen := 3
	if ctx.Tier == "thorough" {
		maxLen = 5
	}
	na := len(c20Alphabet()) - 6 // the large and the boundary-length records are not enumerated
	var cases []json.RawMessage
	var rec func(cur []int)
	rec = func(cur []int) {
		for comp := 0; comp < 4; comp++ {
			cases = append(cases, core.J(c20Case{Kind: "file", Recs: append([]int{}, cur...), Comp: comp}))
			// a write buffer smaller than most records: those records bypass the buffer
			cases = append(cases, core.J(c20Case{Kind: "file", Recs: append([]int{}, cur...), Comp: comp, WBuf: 16}))
		}
		if len(cur) == maxLen {
			return
		}
		for i := 0; i < na; i++ {
			rec(append(cur, i))
		}
	}
	rec(nil)
	// writer programs that seek back to an earlier record boundary and continue (what the table writer does after a
	// failed index append): the file the writer leaves behind must still parse
	for l := 2; l <= 3; l++ {
		for _, p := range rioPrograms(l, []int{0, 1, 2, 3}, nil, 0, -1) {
			hasSeek := false
			for _, o := range p {
				hasSeek = hasSeek || o.Op == "K"
			}
			if !hasSeek {
				continue
			}
			for comp := 0; comp < 4; comp++ {
				cases = append(cases, core.J(c20Case{Kind: "file", Prog: p, Comp: comp}))
			}
		}
	}
	// longer seek programs over three record sizes (1, 5 and 40 zero bytes): repeated rewinds of different lengths
	seekMax := 5
	if ctx.Tier == "thorough" {
		seekMax = 6
	}
	for l := 4; l <= seekMax; l++ {
		for _, p := range rioPrograms(l, []int{2, 4, 5}, nil, 0, -1) {
			hasSeek := false
			for _, o := range p {
				hasSeek = hasSeek || o.Op == "K"
			}
			if !hasSeek {
				continue
			}
			for _, cw := range [][2]int{{0, 4096}, {0, 16}, {2, 4096}, {2, 16}} {
				cases = append(cases, core.J(c20Case{Kind: "file", Prog: p, Comp: cw[0], WBuf: cw[1]}))
			}
		}
	}
	ctx.Ev.Bounds["seek_programs_max_length"] = seekMax
	// stored lengths whose base-128 encoding needs 3 and 4 groups (>= 2^14 and >= 2^21 bytes): alphabet indexes 6 and 7
	for comp := 0; comp < 4; comp++ {
		for _, recs := range [][]int{{6}, {2, 6, 2}, {6, 6}, {7}, {2, 7, 2}, {8}, {9}, {8, 9, 2}, {10}, {11}, {10, 11, 2}} {
			cases = append(cases, core.J(c20Case{Kind: "file", Recs: recs, Comp: comp}))
		}
	}
	// files that are still open: records appended with WriteSync, and the file is parsed after every append, before
	// Close - what a reader of a live or abandoned log file sees (a synchronous append has written its record in full)
	var recSync func(cur []int)
	recSync = func(cur []int) {
		if len(cur) > 0 {
			for comp := 0; comp < 4; comp++ {
				for _, wb := range []int{16, 4096} {
					cases = append(cases, core.J(c20Case{Kind: "open", Recs: append([]int{}, cur...), Comp: comp, WBuf: wb}))
				}
			}
		}
		if len(cur) == 2 {
			return
		}
		for i := 0; i < na; i++ {
			recSync(append(cur, i))
		}
	}
	recSync(nil)
	cases = append(cases, core.J(c20Case{Kind: "enum"}))
	ctx.Ev.Rule = "every record sequence up to the length bound over {nil, empty, a, 300 compressible bytes, marker-bearing, 40 zero bytes} (plus files with a 20000-byte and a 2100000-byte record: 3- and 4-group length encodings) x 4 compression types x write buffer {16, 4096} is written by the current writer and parsed with gokaitai.RecordioV4; record count, nil flags and stored payload bytes are compared with the byte layout the native reader uses; plus every writer program with Seek(to a surviving boundary) up to seek_programs_max_length; plus every sequence of up to 2 records appended with WriteSync, parsed after every append while the writer is still open and again after Close; plus the compression enum of the schema and of the generated code against the writer constants. non-trivial = at least one record"
	ctx.Ev.Bounds["max_records"] = maxLen
	rs := ctx.Pmap(cases)
	ctx.Fold(rs, cases)
	for i, r := range rs {
		if r.Died {
			ctx.Report(core.Violation{Desc: "worker died: " + r.DiedMsg, Case: cases[i]})
		}
	}
	return nil
}

var writerCompressionNames = map[int]string{
	recordio.CompressionTypeNone:   "none",
	recordio.CompressionTypeGZIP:   "gzip",
	recordio.CompressionTypeSnappy: "snappy",
	recordio.CompressionTypeLzw:    "lzw",
}

func (c c20) Case(w *core.WCtx, payload json.RawMessage) core.Result {
	var cs c20Case
	json.Unmarshal(payload, &cs)
	var r core.Result
	if cs.Kind == "enum" {
		return c.enumCase()
	}
	alpha := c20Alphabet()
	if cs.Kind == "open" {
		return c.openCase(w, cs, alpha)
	}
	var prog []wop
	names := ""
	for _, i := range cs.Recs {
		prog = append(prog, wop{"W", i})
		names += alpha[i].Name + " "
	}
	if cs.Prog != nil {
		prog = cs.Prog
		for _, o := range prog {
			if o.Op == "K" {
				names += fmt.Sprintf("seek(b%d) ", o.Arg)
			} else {
				names += alpha[o.Arg].Name + " "
			}
		}
	}
	dir := w.Dir()
	path := tmpFile(dir, "k.rio")
	wbuf := cs.WBuf
	if wbuf == 0 {
		wbuf = 4096
	}
	m, _, err := rioWrite(path, prog, rioCfg{Comp: cs.Comp, WBuf: wbuf}, alpha)
	if err != nil {
		r.Viol = append(r.Viol, core.Violation{Desc: "writer failed: " + err.Error()})
		return r
	}
	r.Trans += int64(len(prog))
	r.Traces++
	if len(prog) > 0 {
		r.Key = core.HashKey(names, fmt.Sprint(cs.Comp, wbuf))
	}
	data := readAll(path)
	viol := func(sig, f string, a ...any) {
		if len(r.Viol) < 4 {
			r.Viol = append(r.Viol, core.Violation{Sig: sig, Desc: fmt.Sprintf("[%s] comp=%s wbuf=%d: %s", names, writerCompressionNames[cs.Comp], wbuf, fmt.Sprintf(f, a...))})
		}
	}
	func() {
		defer func() {
			if p := recover(); p != nil {
				viol("", "kaitai parser panicked: %v", p)
			}
		}()
		rio := gokaitai.NewRecordioV4()
		err = rio.Read(kaitai.NewStream(bytes.NewReader(data)), nil, rio)
		r.Evals++
		// D15 (a): payload length is computed as uncompressed XOR compressed, which is only right for uncompressed non-nil records
		lenSig := ""
		if cs.Comp != 0 && len(prog) > 0 {
			lenSig = "D15-kaitai-len-payload"
		}
		if err != nil {
			viol(lenSig, "kaitai parse failed: %v", err)
			return
		}
		if rio.FileHeader.Version != 4 || int(rio.FileHeader.CompressionType) != cs.Comp {
			viol("", "file header parsed as version %d compression %d", rio.FileHeader.Version, rio.FileHeader.CompressionType)
		}
		if len(rio.Record) != len(m.Recs) {
			viol(lenSig, "kaitai sees %d records, written %d", len(rio.Record), len(m.Recs))
			return
		}
		comp, _ := recordio.NewCompressorForType(cs.Comp)
		for i, kr := range rio.Record {
			r.Evals += 3
			hl, pl, ok := parseHeaderLen(data, m.Offs[i], cs.Comp != 0)
			if !ok {
				viol("", "cannot parse native header %d", i)
				return
			}
			stored := data[int(m.Offs[i])+hl : int(m.Offs[i])+hl+pl]
			if (kr.RecordNil == 1) != (m.Recs[i] == nil) {
				viol("", "record %d nil flag %d, written nil=%v", i, kr.RecordNil, m.Recs[i] == nil)
			}
			if !bytes.Equal(kr.Payload, stored) {
				viol(lenSig, "record %d payload %s differs from the stored bytes %s", i, recStr(kr.Payload), recStr(stored))
				continue
			}
			// and the stored bytes are what the native reader decodes to the written record
			if m.Recs[i] != nil {
				plain := kr.Payload
				if comp != nil {
					plain, err = comp.Decompress(kr.Payload)
					if err != nil {
						viol("", "record %d: kaitai payload does not decompress: %v", i, err)
						continue
					}
				}
				if !bytes.Equal(plain, m.Recs[i]) {
					viol("", "record %d: payload decodes to %s, written %s", i, recStr(plain), recStr(m.Recs[i]))
				}
			}
		}
	}()
	r.Outcome = fmt.Sprintf("comp=%d n=%d ok=%v", cs.Comp, len(cs.Recs), len(r.Viol) == 0)
	if len(cs.Recs) == 3 && cs.Comp == 2 && cs.Recs[0] == 0 && cs.Recs[1] == 3 && cs.Recs[2] == 1 {
		r.Sample = string(core.J(map[string]any{"records": names, "compression": "snappy", "file_bytes": len(data)}))
	}
	return r
}

// openCase appends the records with WriteSync and parses the file after every append while the writer is still open,
// then once more after Close: the schema reader must see exactly the records appended so far.
func (c c20) openCase(w *core.WCtx, cs c20Case, alpha []rioRec) core.Result {
	var r core.Result
	names := ""
	for _, i := range cs.Recs {
		names += alpha[i].Name + " "
	}
	viol := func(f string, a ...any) {
		if len(r.Viol) < 4 {
			r.Viol = append(r.Viol, core.Violation{Desc: fmt.Sprintf("open file [%s] comp=%s wbuf=%d: %s", names, writerCompressionNames[cs.Comp], cs.WBuf, fmt.Sprintf(f, a...))})
		}
	}
	path := tmpFile(w.Dir(), "o.rio")
	wr, err := recordio.NewFileWriter(recordio.Path(path), recordio.CompressionType(cs.Comp), recordio.BufferSizeBytes(cs.WBuf))
	if err == nil {
		err = wr.Open()
	}
	if err != nil {
		viol("writer failed: %v", err)
		return r
	}
	comp, _ := recordio.NewCompressorForType(cs.Comp)
	check := func(when string, n int) {
		defer func() {
			if p := recover(); p != nil {
				viol("%s: kaitai parser panicked: %v", when, p)
			}
		}()
		data := readAll(path)
		rio := gokaitai.NewRecordioV4()
		r.Evals++
		if err := rio.Read(kaitai.NewStream(bytes.NewReader(data)), nil, rio); err != nil {
			viol("%s (%d bytes on disk): kaitai parse failed: %v", when, len(data), err)
			return
		}
		if len(rio.Record) != n {
			viol("%s: kaitai sees %d records, appended %d", when, len(rio.Record), n)
			return
		}
		for i, kr := range rio.Record {
			want := alpha[cs.Recs[i]].Data
			r.Evals += 2
			if (kr.RecordNil == 1) != (want == nil) {
				viol("%s: record %d nil flag %d, written nil=%v", when, i, kr.RecordNil, want == nil)
				continue
			}
			if want == nil {
				continue
			}
			plain := kr.Payload
			if comp != nil {
				var derr error
				if plain, derr = comp.Decompress(kr.Payload); derr != nil {
					viol("%s: record %d: kaitai payload does not decompress: %v", when, i, derr)
					continue
				}
			}
			if !bytes.Equal(plain, want) {
				viol("%s: record %d decodes to %s, written %s", when, i, recStr(plain), recStr(want))
			}
		}
	}
	for i, ai := range cs.Recs {
		if _, err := wr.WriteSync(alpha[ai].Data); err != nil {
			viol("WriteSync %d failed: %v", i, err)
			wr.Close()
			return r
		}
		r.Trans++
		check(fmt.Sprintf("after synchronous append %d, writer open", i), i+1)
	}
	if err := wr.Close(); err != nil {
		viol("Close failed: %v", err)
	}
	check("after Close", len(cs.Recs))
	r.Traces++
	r.Key = core.HashKey("open", names, fmt.Sprint(cs.Comp, cs.WBuf))
	r.Outcome = fmt.Sprintf("open comp=%d n=%d ok=%v", cs.Comp, len(cs.Recs), len(r.Viol) == 0)
	return r
}

func repoRoot() string {
	if r := os.Getenv("VERIF_REPO"); r != "" {
		return r
	}
	return "/repo"
}

// enumCase: every compression code the writer can emit is known to the schema
// (ksy enum) and to the generated reader (Go const block) under the matching name.
func (c c20) enumCase() core.Result {
	var r core.Result
	r.Key = core.HashKey("enum")
	r.Traces = 1
	ksy, err := os.ReadFile(repoRoot() + "/kaitai/recordio_v4.ksy")
	if err != nil {
		r.Viol = append(r.Viol, core.Violation{Desc: "cannot read schema: " + err.Error()})
		return r
	}
	// enums:\n  compression:\n    0: none ...
	ksyEnum := map[int]string{}
	in := false
	for _, line := range strings.Split(string(ksy), "\n") {
		if strings.HasPrefix(strings.TrimSpace(line), "compression:") && strings.HasPrefix(line, "  ") && !strings.Contains(line, "enum") {
			in = true
			continue
		}
		if in {
			mm := regexp.MustCompile(`^\s+(\d+):\s*(\w+)`).FindStringSubmatch(line)
			if mm == nil {
				if strings.TrimSpace(line) != "" {
					in = false
				}
				continue
			}
			var n int
			fmt.Sscan(mm[1], &n)
			ksyEnum[n] = mm[2]
		}
	}
	goEnum := map[int]string{}
	fset := token.NewFileSet()
	f, err := parser.ParseFile(fset, repoRoot()+"/kaitai/gokaitai/recordio_v4.go", nil, 0)
	if err != nil {
		r.Viol = append(r.Viol, core.Violation{Desc: "cannot parse generated reader: " + err.Error()})
		return r
	}
	for _, d := range f.Decls {
		gd, ok := d.(*ast.GenDecl)
		if !ok || gd.Tok != token.CONST {
			continue
		}
		for _, s := range gd.Specs {
			vs := s.(*ast.ValueSpec)
			for i, n := range vs.Names {
				if strings.HasPrefix(n.Name, "RecordioV4_Compression__") && i < len(vs.Values) {
					if bl, ok := vs.Values[i].(*ast.BasicLit); ok {
						var v int
						fmt.Sscan(bl.Value, &v)
						goEnum[v] = strings.ToLower(strings.TrimPrefix(n.Name, "RecordioV4_Compression__"))
					}
				}
			}
		}
	}
	// every code the library accepts for writing must be known to the schema and to the generated reader: probe the
	// whole range instead of trusting the list of names above
	for code := 0; code < 1024; code++ {
		r.Evals++
		if _, err := recordio.NewCompressorForType(code); err != nil {
			continue
		}
		if _, known := writerCompressionNames[code]; known {
			continue
		}
		if ksyEnum[code] == "" || goEnum[code] == "" {
			r.Viol = append(r.Viol, core.Violation{Desc: fmt.Sprintf("the library accepts compression code %d for writing, but the schema enum (%q) / the generated reader (%q) do not know it", code, ksyEnum[code], goEnum[code])})
		}
	}
	for code, name := range writerCompressionNames {
		r.Evals += 2
		if ksyEnum[code] != name {
			r.Viol = append(r.Viol, core.Violation{Sig: "D15-kaitai-enum", Desc: fmt.Sprintf("schema enum maps compression code %d to %q, the writer emits it for %q", code, ksyEnum[code], name)})
		}
		if goEnum[code] != name {
			r.Viol = append(r.Viol, core.Violation{Sig: "D15-kaitai-enum", Desc: fmt.Sprintf("generated reader names compression code %d %q, the writer emits it for %q", code, goEnum[code], name)})
		}
	}
	r.Outcome = fmt.Sprintf("enum ok=%v", len(r.Viol) == 0)
	return r
}
