package checks

import (
	"bytes"
	"encoding/json"
	"errors"
	"fmt"
	"sort"
	"strings"

	"github.com/thomasjungblut/go-sstables/pq"
	"github.com/thomasjungblut/go-sstables/skiplist"
	"verif/internal/core"
	"verif/shim/vrand"
)

// C16: skip-list map behaves as a sorted map for every insertion order and
// tower-height assignment; the merge heap is a sorted k-way merge.

type c16 struct{}

func init() { core.Register(c16{}) }

func (c16) ID() string { return "C16" }

type c16Case struct {
	Kind string `json:"kind"` // "skip" | "heap" | "heapfault"
	Cmp  string `json:"cmp,omitempty"`
	N    int    `json:"n,omitempty"`
	Perm []int  `json:"perm,omitempty"`
	// Heights: "all" = every vector over {1,2,3,12}; otherwise a family name
	Heights string `json:"heights,omitempty"`
	K       int    `json:"k,omitempty"`
	First   int    `json:"first,omitempty"` // subset mask of the first heap input
	U       int    `json:"u,omitempty"`     // heap key universe size
}

func permutations(n int) [][]int {
	var out [][]int
	a := make([]int, n)
	for i := range a {
		a[i] = i
	}
	var rec func(int)
	rec = func(i int) {
		if i == n {
			out = append(out, append([]int(nil), a...))
			return
		}
		for j := i; j < n; j++ {
			a[i], a[j] = a[j], a[i]
			rec(i + 1)
			a[i], a[j] = a[j], a[i]
		}
	}
	rec(0)
	return out
}

func (c c16) Run(ctx *core.Ctx) error {
	maxN, allUpTo := 6, 4
	heapK := 4
	if ctx.Tier == "thorough" {
		maxN, allUpTo = 7, 5
	}
	var cases []json.RawMessage
	for _, cmp := range []string{"int", "string", "bytes", "intdiff", "bytesprefix"} {
		for n := 0; n <= maxN; n++ {
			for _, p := range permutations(n) {
				if n <= allUpTo {
					cases = append(cases, core.J(c16Case{Kind: "skip", Cmp: cmp, N: n, Perm: p, Heights: "all"}))
				} else {
					for _, fam := range []string{"flat", "rising", "falling", "tall"} {
						cases = append(cases, core.J(c16Case{Kind: "skip", Cmp: cmp, N: n, Perm: p, Heights: fam}))
					}
				}
			}
		}
	}
	for k := 0; k <= heapK; k++ {
		if k == 0 {
			cases = append(cases, core.J(c16Case{Kind: "heap", K: 0, U: 4}))
			continue
		}
		for first := 0; first < 16; first++ {
			cases = append(cases, core.J(c16Case{Kind: "heap", K: k, First: first, U: 4}))
		}
	}
	// deeper heaps (3 levels need 5..7 inputs): smaller key universe, more inputs
	deepK, deepU := 7, 3
	for k := 5; k <= deepK; k++ {
		for first := 0; first < 1<<deepU; first++ {
			cases = append(cases, core.J(c16Case{Kind: "heap", K: k, First: first, U: deepU}))
		}
	}
	if ctx.Tier == "thorough" {
		for first := 0; first < 16; first++ {
			cases = append(cases, core.J(c16Case{Kind: "heap", K: 5, First: first, U: 4}))
		}
		for first := 0; first < 4; first++ {
			cases = append(cases, core.J(c16Case{Kind: "heap", K: 9, First: first, U: 2}))
		}
	}
	ctx.Ev.Bounds["heap_deep_inputs"] = deepK
	for k := 1; k <= 3; k++ {
		for first := 0; first < 16; first++ {
			cases = append(cases, core.J(c16Case{Kind: "heapfault", K: k, First: first, U: 4}))
		}
	}
	ctx.Ev.Rule = "skip list: every permutation of n distinct keys x tower-height vectors (all vectors over {1,2,3,12} for small n, four fixed families beyond) x {int, string, bytes, int-difference, bytes over prefix keys sharing one backing array} comparator; a state is distinct by its key->height layout, non-trivial = n>=2; every universe key (present, absent, below, above) is probed with Size/Contains/Get/Iterator/IteratorStartingAt/IteratorBetween(all pairs). heap: every list of k inputs, each an ascending subset of the key universe; plus an error injected at every Next position of every input"
	ctx.Ev.Bounds["skiplist_max_n"] = maxN
	ctx.Ev.Bounds["skiplist_all_height_vectors_up_to_n"] = allUpTo
	ctx.Ev.Bounds["heap_max_inputs"] = heapK
	ctx.Ev.Assume = []string{"tower heights are controlled by rewriting skiplist's math/rand import to verif/shim/vrand at build time (overlay generated from the current file)"}
	rs := ctx.Pmap(cases)
	ctx.Fold(rs, cases)
	return nil
}

// universe of 2n+1 keys; inserted keys are the odd positions
type skipOps interface {
	insert(i int)
	probe(n int, u int, exp []int) []string // returns mismatch descriptions
}

func heightsFor(fam string, n int) []int {
	hs := make([]int, n)
	cyc := []int{1, 2, 3, 12}
	for i := range hs {
		switch fam {
		case "flat":
			hs[i] = 1
		case "rising":
			hs[i] = cyc[i%4]
		case "falling":
			hs[i] = cyc[3-i%4]
		case "tall":
			hs[i] = 12
		}
	}
	return hs
}

func (c c16) Case(w *core.WCtx, payload json.RawMessage) core.Result {
	var cs c16Case
	json.Unmarshal(payload, &cs)
	switch cs.Kind {
	case "skip":
		return c.skipCase(cs)
	case "heap":
		return c.heapCase(cs)
	default:
		return c.heapFaultCase(cs)
	}
}

func (c c16) skipCase(cs c16Case) core.Result {
	var r core.Result
	n := cs.N
	var vectors [][]int
	if cs.Heights == "all" {
		alpha := []int{1, 2, 3, 12}
		total := 1
		for i := 0; i < n; i++ {
			total *= 4
		}
		for x := 0; x < total; x++ {
			v := make([]int, n)
			y := x
			for i := 0; i < n; i++ {
				v[i] = alpha[y%4]
				y /= 4
			}
			vectors = append(vectors, v)
		}
	} else {
		vectors = [][]int{heightsFor(cs.Heights, n)}
	}
	for _, hv := range vectors {
		var mism []string
		switch cs.Cmp {
		case "int":
			mism = runSkip[int](cs, hv, skiplist.OrderedComparator[int]{}, func(u int) int { return u*3 - 3 }, &r) // keys include 0, the zero value of the key type
		case "intdiff":
			// a consistent comparator that returns the difference (any magnitude), as the Compare contract allows
			mism = runSkip[int](cs, hv, diffComparator{}, func(u int) int { return u*30 - 40 }, &r)
		case "string":
			mism = runSkip[string](cs, hv, skiplist.OrderedComparator[string]{}, func(u int) string {
				if u == 0 {
					return ""
				}
				return fmt.Sprintf("k%02d", u)
			}, &r)
		case "bytes":
			mism = runSkip[[]byte](cs, hv, skiplist.BytesComparator{}, func(u int) []byte {
				if u == 0 {
					return []byte{}
				}
				return []byte{byte(0x90 + u/2), byte(u % 2 * 0x8d)}
			}, &r)
		case "bytesprefix":
			// keys that are prefixes of one another and share one backing array (sub-slices of one caller buffer)
			mism = runSkip[[]byte](cs, hv, skiplist.BytesComparator{}, func(u int) []byte { return c16Shared[:u] }, &r)
		}
		// layout = key -> height (independent of the insertion order)
		lay := make([]string, n)
		for i, k := range cs.Perm {
			lay[k] = fmt.Sprint(hv[i])
		}
		if n >= 2 {
			r.Keys = append(r.Keys, core.HashKey(cs.Cmp, strings.Join(lay, ",")))
		}
		r.Traces++
		for _, m := range mism {
			r.Viol = append(r.Viol, core.Violation{Desc: fmt.Sprintf("skiplist cmp=%s perm=%v heights=%v: %s", cs.Cmp, cs.Perm, hv, m),
				Case: core.J(c16Case{Kind: "skip", Cmp: cs.Cmp, N: n, Perm: cs.Perm, Heights: cs.Heights})})
			if len(r.Viol) > 3 {
				break
			}
		}
		if len(r.Viol) > 3 {
			break
		}
	}
	r.Outcome = fmt.Sprintf("skip n=%d cmp=%s ok=%v", n, cs.Cmp, len(r.Viol) == 0)
	if n == 3 && cs.Heights == "all" && cs.Perm[0] == 2 {
		r.Sample = string(core.J(map[string]any{"kind": "skiplist", "cmp": cs.Cmp, "insert_order": cs.Perm, "height_vectors": len(vectors)}))
	}
	return r
}

var c16Shared = bytes.Repeat([]byte("a"), 64)

func runSkip[K any](cs c16Case, hv []int, cmp skiplist.Comparator[K], key func(u int) K, r *core.Result) (mism []string) {
	defer func() {
		if p := recover(); p != nil {
			mism = append(mism, fmt.Sprintf("panic: %v", p))
		}
	}()
	n := cs.N
	vrand.Reset()
	vrand.SetHeights(hv, 12)
	m := skiplist.NewSkipListMap[K, int](cmp)
	for _, k := range cs.Perm {
		m.Insert(key(2*k+1), 100+k)
		r.Trans++
	}
	U := 2*n + 1
	bad := func(f string, a ...any) { mism = append(mism, fmt.Sprintf(f, a...)) }
	r.Evals++
	if m.Size() != n {
		bad("Size=%d want %d", m.Size(), n)
	}
	drain := func(it skiplist.IteratorI[K, int]) []int {
		var out []int
		for i := 0; i < U+3; i++ {
			k, v, err := it.Next()
			if err != nil {
				if !errors.Is(err, skiplist.Done) {
					out = append(out, -2)
				}
				// Done must be sticky
				_, _, err2 := it.Next()
				if !errors.Is(err2, skiplist.Done) {
					out = append(out, -3)
				}
				return out
			}
			// identify key
			found := -1
			for u := 0; u < U; u++ {
				if cmp.Compare(k, key(u)) == 0 {
					found = u
				}
			}
			if found < 0 || found%2 == 0 || v != 100+found/2 {
				out = append(out, -1)
			} else {
				out = append(out, found)
			}
		}
		out = append(out, -4) // did not terminate
		return out
	}
	expRange := func(lo, hi int) []int {
		var out []int
		for u := 1; u < U; u += 2 {
			if u >= lo && u <= hi {
				out = append(out, u)
			}
		}
		return out
	}
	eq := func(a, b []int) bool {
		if len(a) != len(b) {
			return false
		}
		for i := range a {
			if a[i] != b[i] {
				return false
			}
		}
		return true
	}
	for u := 0; u < U; u++ {
		present := u%2 == 1
		r.Evals += 3
		if m.Contains(key(u)) != present {
			bad("Contains(u%d)=%v", u, !present)
		}
		v, err := m.Get(key(u))
		if present && (err != nil || v != 100+u/2) {
			bad("Get(u%d)=%v,%v", u, v, err)
		}
		if !present && !errors.Is(err, skiplist.NotFound) {
			bad("Get(absent u%d)=%v,%v", u, v, err)
		}
		it, err := m.IteratorStartingAt(key(u))
		if err != nil {
			bad("IteratorStartingAt(u%d) err %v", u, err)
		} else if got := drain(it); !eq(got, expRange(u, U)) {
			bad("IteratorStartingAt(u%d)=%v want %v", u, got, expRange(u, U))
		}
	}
	it, err := m.Iterator()
	r.Evals++
	if err != nil {
		bad("Iterator err %v", err)
	} else if got := drain(it); !eq(got, expRange(0, U)) {
		bad("Iterator=%v want %v", got, expRange(0, U))
	}
	for lo := 0; lo < U; lo++ {
		for hi := 0; hi < U; hi++ {
			r.Evals++
			it, err := m.IteratorBetween(key(lo), key(hi))
			if lo > hi {
				if err == nil {
					bad("IteratorBetween(u%d,u%d) lower>upper accepted", lo, hi)
				}
				continue
			}
			if err != nil {
				bad("IteratorBetween(u%d,u%d) err %v", lo, hi, err)
				continue
			}
			if got := drain(it); !eq(got, expRange(lo, hi)) {
				bad("IteratorBetween(u%d,u%d)=%v want %v", lo, hi, got, expRange(lo, hi))
			}
		}
	}
	return mism
}

type diffComparator struct{}

func (diffComparator) Compare(a, b int) int { return a - b }

// ---- heap

type heapIt struct {
	id     int
	keys   []int
	pos    int
	failAt int // -1 = never
	calls  int
}

var errInjected = errors.New("injected input failure")

func (h *heapIt) Next() (int, [2]int, error) {
	h.calls++
	if h.failAt >= 0 && h.pos == h.failAt {
		return 0, [2]int{}, errInjected
	}
	if h.pos >= len(h.keys) {
		return 0, [2]int{}, pq.Done
	}
	k := h.keys[h.pos]
	v := [2]int{h.id, h.pos}
	h.pos++
	return k, v, nil
}
func (h *heapIt) Context() int { return h.id }

func subsetKeys(mask, u int) []int {
	var ks []int
	for b := 0; b < u; b++ {
		if mask&(1<<b) != 0 {
			ks = append(ks, (b-1)*10) // -10, 0, 10, ...: the zero value of the key type is one of the keys
		}
	}
	return ks
}

func forEachMaskList(k, first, u int, f func(masks []int)) {
	if k == 0 {
		f(nil)
		return
	}
	masks := make([]int, k)
	masks[0] = first
	var rec func(i int)
	rec = func(i int) {
		if i == k {
			f(masks)
			return
		}
		for m := 0; m < 1<<u; m++ {
			masks[i] = m
			rec(i + 1)
		}
	}
	rec(1)
}

func (c c16) heapCase(cs c16Case) core.Result {
	var r core.Result
	forEachMaskList(cs.K, cs.First, cs.U, func(masks []int) {
		var its []pq.IteratorWithContext[int, [2]int, int]
		total := 0
		for i, m := range masks {
			ks := subsetKeys(m, cs.U)
			total += len(ks)
			its = append(its, &heapIt{id: i, keys: ks, failAt: -1})
		}
		msg := checkHeap(its, masks, cs.U, total, &r)
		r.Traces++
		if total >= 2 {
			r.Keys = append(r.Keys, core.HashKey("heap", fmt.Sprint(masks)))
		}
		if msg != "" && len(r.Viol) < 3 {
			r.Viol = append(r.Viol, core.Violation{Desc: fmt.Sprintf("heap inputs(masks over 1..%d)=%v: %s", cs.U, masks, msg)})
		}
	})
	r.Outcome = fmt.Sprintf("heap k=%d ok=%v", cs.K, len(r.Viol) == 0)
	if cs.K == 3 && cs.First == 5 {
		r.Sample = string(core.J(map[string]any{"kind": "heap", "inputs": [][]int{subsetKeys(5, 4), {1, 2, 3, 4}, {}}, "note": "one of 256 lists in this case"}))
	}
	return r
}

func checkHeap(its []pq.IteratorWithContext[int, [2]int, int], masks []int, u, total int, r *core.Result) (msg string) {
	defer func() {
		if p := recover(); p != nil {
			msg = fmt.Sprintf("panic: %v", p)
		}
	}()
	// keys are multiples of 10 and the comparator returns the difference: a consistent comparator with magnitudes
	// other than 1 (on every other list, the unit comparator on the rest)
	var cmp skiplist.Comparator[int] = skiplist.OrderedComparator[int]{}
	sum := 0
	for _, m := range masks {
		sum += m
	}
	if sum%2 == 1 {
		cmp = diffComparator{}
	}
	q, err := pq.NewPriorityQueue[int, [2]int, int](cmp, its)
	if err != nil {
		return "init error " + err.Error()
	}
	prev := -1 << 30
	nextPos := make([]int, len(masks))
	count := 0
	for i := 0; i < total+2; i++ {
		k, v, ctx, err := q.Next()
		r.Trans++
		r.Evals++
		if err != nil {
			if !errors.Is(err, pq.Done) {
				return "unexpected error " + err.Error()
			}
			if count != total {
				return fmt.Sprintf("Done after %d of %d elements", count, total)
			}
			if _, _, _, e2 := q.Next(); !errors.Is(e2, pq.Done) {
				return "Done not sticky"
			}
			return ""
		}
		count++
		if k < prev {
			return fmt.Sprintf("key order violated: %d after %d", k, prev)
		}
		prev = k
		if ctx < 0 || ctx >= len(masks) || v[0] != ctx {
			return fmt.Sprintf("context %d does not identify the input of value %v", ctx, v)
		}
		if v[1] != nextPos[ctx] {
			return fmt.Sprintf("input %d: element %d delivered when %d was due (lost/duplicated/reordered)", ctx, v[1], nextPos[ctx])
		}
		ks := subsetKeys(masks[ctx], u)
		if v[1] >= len(ks) || ks[v[1]] != k {
			return fmt.Sprintf("key %d does not belong to value %v", k, v)
		}
		nextPos[ctx]++
	}
	return "did not terminate"
}

func (c c16) heapFaultCase(cs c16Case) core.Result {
	var r core.Result
	forEachMaskList(cs.K, cs.First, cs.U, func(masks []int) {
		for j := range masks {
			lj := len(subsetKeys(masks[j], cs.U))
			for p := 0; p <= lj; p++ {
				var its []pq.IteratorWithContext[int, [2]int, int]
				total := 0
				for i, m := range masks {
					ks := subsetKeys(m, cs.U)
					total += len(ks)
					fa := -1
					if i == j {
						fa = p
					}
					its = append(its, &heapIt{id: i, keys: ks, failAt: fa})
				}
				msg := checkHeapFault(its, masks, cs.U, total, j, p, &r)
				r.Traces++
				r.Keys = append(r.Keys, core.HashKey("heapfault", fmt.Sprint(masks), fmt.Sprint(j, p)))
				if msg != "" && len(r.Viol) < 3 {
					r.Viol = append(r.Viol, core.Violation{Desc: fmt.Sprintf("heap inputs=%v, input %d fails at position %d: %s", masks, j, p, msg)})
				}
			}
		}
	})
	r.Outcome = fmt.Sprintf("heapfault k=%d ok=%v", cs.K, len(r.Viol) == 0)
	return r
}

// an injected input error must surface from NewPriorityQueue or Next; everything
// delivered before must be a correct prefix; nothing is delivered after the error
// position of the failing input.
func checkHeapFault(its []pq.IteratorWithContext[int, [2]int, int], masks []int, u, total, j, p int, r *core.Result) (msg string) {
	defer func() {
		if e := recover(); e != nil {
			msg = fmt.Sprintf("panic: %v", e)
		}
	}()
	q, err := pq.NewPriorityQueue[int, [2]int, int](skiplist.OrderedComparator[int]{}, its)
	r.Evals++
	if err != nil {
		if errors.Is(err, errInjected) {
			return ""
		}
		return "init error is not the injected one: " + err.Error()
	}
	prev := -1 << 30
	nextPos := make([]int, len(masks))
	for i := 0; i < total+2; i++ {
		k, v, ctx, err := q.Next()
		r.Trans++
		r.Evals++
		if err != nil {
			if errors.Is(err, errInjected) {
				return ""
			}
			if errors.Is(err, pq.Done) {
				return "injected error absorbed: queue reported Done"
			}
			return "other error " + err.Error()
		}
		if k < prev {
			return "order violated before the error"
		}
		prev = k
		if v[0] != ctx || v[1] != nextPos[ctx] {
			return fmt.Sprintf("wrong element %v ctx %d before the error", v, ctx)
		}
		if ctx == j && v[1] >= p {
			return "element at/after the failing position delivered"
		}
		nextPos[ctx]++
	}
	return "did not terminate"
}

var _ = sort.Ints
