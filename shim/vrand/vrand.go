// Package vrand replaces math/rand inside skiplist (import rewritten by vinstr):
// tower heights become a harness-controlled input instead of hidden randomness.
package vrand

var feed []int
var pos int
var state uint64 = 0x9E3779B97F4A7C15

// Int answers skiplist.randomHeight. Fed values first, then a fixed xorshift stream.
func Int() int {
	if pos < len(feed) {
		v := feed[pos]
		pos++
		return v
	}
	state ^= state << 13
	state ^= state >> 7
	state ^= state << 17
	return int(state >> 1)
}

// Reset restarts the deterministic default stream and clears the feed.
func Reset() { feed = nil; pos = 0; state = 0x9E3779B97F4A7C15 }

// SetHeights makes the next len(hs) insertions use exactly these tower heights
// (branch factor 4, max height 12 as in skiplist.randomHeight).
func SetHeights(hs []int, maxHeight int) {
	feed = feed[:0]
	pos = 0
	for _, h := range hs {
		for i := 1; i < h; i++ {
			feed = append(feed, 0)
		}
		if h < maxHeight {
			feed = append(feed, 1)
		}
	}
}
