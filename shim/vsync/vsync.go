// Package vsync replaces "sync" inside simpledb in the scheduler builds: every
// Lock/RLock is a scheduling point whose enabledness is decided by the scheduler's
// model; the granted thread then takes the REAL lock (it never blocks there), so
// the race detector sees the program's real synchronisation.
package vsync

import (
	"sync"

	"verif/shim/vsched"
)

type RWMutex struct{ real sync.RWMutex }

func (m *RWMutex) Lock()    { vsched.BeforeLock(m, true); m.real.Lock() }
func (m *RWMutex) Unlock()  { m.real.Unlock(); vsched.AfterUnlock(m, true) }
func (m *RWMutex) RLock()   { vsched.BeforeLock(m, false); m.real.RLock() }
func (m *RWMutex) RUnlock() { m.real.RUnlock(); vsched.AfterUnlock(m, false) }

type Mutex struct{ real sync.Mutex }

func (m *Mutex) Lock()   { vsched.BeforeLock(m, true); m.real.Lock() }
func (m *Mutex) Unlock() { m.real.Unlock(); vsched.AfterUnlock(m, true) }

type WaitGroup = sync.WaitGroup
type Once = sync.Once
type Pool = sync.Pool
