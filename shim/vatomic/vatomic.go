// Package vatomic replaces "sync/atomic" inside simpledb in the scheduler builds.
package vatomic

import (
	"sync/atomic"

	"verif/shim/vsched"
)

func AddUint64(p *uint64, d uint64) uint64 { vsched.Point(); return atomic.AddUint64(p, d) }
func LoadUint64(p *uint64) uint64          { vsched.Point(); return atomic.LoadUint64(p) }
func StoreUint64(p *uint64, v uint64)      { vsched.Point(); atomic.StoreUint64(p, v) }
func AddInt64(p *int64, d int64) int64     { vsched.Point(); return atomic.AddInt64(p, d) }
func LoadInt64(p *int64) int64             { vsched.Point(); return atomic.LoadInt64(p) }
func StoreInt64(p *int64, v int64)         { vsched.Point(); atomic.StoreInt64(p, v) }
func AddInt32(p *int32, d int32) int32     { vsched.Point(); return atomic.AddInt32(p, d) }
func LoadInt32(p *int32) int32             { vsched.Point(); return atomic.LoadInt32(p) }
func StoreInt32(p *int32, v int32)         { vsched.Point(); atomic.StoreInt32(p, v) }
func CompareAndSwapUint64(p *uint64, o, n uint64) bool {
	vsched.Point()
	return atomic.CompareAndSwapUint64(p, o, n)
}
func CompareAndSwapInt32(p *int32, o, n int32) bool {
	vsched.Point()
	return atomic.CompareAndSwapInt32(p, o, n)
}
