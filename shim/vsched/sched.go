// Package vsched is engine E2's cooperative scheduler. Exactly one managed
// goroutine runs at a time; at every scheduling point the running goroutine
// reports what it is about to do and the scheduler picks the next goroutine from
// the enabled set following a choice prefix (then choice 0 = "continue").
//
// It is "race sighted": all scheduler state lives in fixed arrays that are only
// touched inside go:norace functions, and hand-offs spin on plain words with
// runtime.Gosched (run with GOMAXPROCS=1). The hand-offs therefore add no
// happens-before edges, so a -race build judges exactly the program's own
// synchronisation (real sync.RWMutex, real channels, real go statements) on
// every explored schedule.
package vsched

import (
	"reflect"
	"runtime"
)

type opKind int32

const (
	opPlain opKind = iota
	opStart
	opLockW
	opLockR
	opSend
	opRecv
	opSelect
	opJoin
	opDone
)

const maxThreads = 16
const maxTrace = 1 << 15

type thread struct {
	id     int
	goid   int64
	name   string
	turn   int32 // 1 = may run
	op     opKind
	obj    any
	obj2   any // opSelect: the second channel
	rvObj  any // opSelect: the channel a sender chose for the rendezvous
	done   bool
	client bool
	inRv   bool
	ack    int32
	ready  int32
}

type lockState struct {
	obj     any
	writer  *thread
	readers [maxThreads]int
	nread   int
}

// Choice is one scheduling decision.
type Choice struct {
	N              int32 // number of enabled threads
	RunningEnabled bool  // choice 0 continues the running thread
	Picked         int32
	Thread         int32 // id of the picked thread
}

type Sched struct {
	threads  [maxThreads]*thread
	nthreads int
	cur      *thread
	locks    [64]lockState
	nlocks   int
	closed   [16]any
	nclosed  int
	Prefix   []int
	Trace    [maxTrace]Choice
	NTrace   int
	Step     int64
	Deadlock bool
	DeadInfo [maxThreads]string
	Diverged bool
	quiet    bool
	allDone  int32
	aborted  bool
}

var S *Sched

//go:norace
func goid() int64 {
	var buf [64]byte
	n := runtime.Stack(buf[:], false)
	var v int64
	for i := len("goroutine "); i < n; i++ {
		c := buf[i]
		if c < '0' || c > '9' {
			break
		}
		v = v*10 + int64(c-'0')
	}
	return v
}

//go:norace
func (s *Sched) me() *thread {
	g := goid()
	for i := 0; i < s.nthreads; i++ {
		if s.threads[i].goid == g {
			return s.threads[i]
		}
	}
	return nil
}

//go:norace
func spinUntil(p *int32) {
	for *p == 0 {
		runtime.Gosched()
	}
	*p = 0
}

//go:norace
func set(p *int32) { *p = 1 }

// Run executes body as thread 0 under a fresh scheduler following prefix.
//
//go:norace
func Run(prefix []int, body func()) *Sched {
	s := &Sched{Prefix: prefix}
	S = s
	t := &thread{id: 0, name: "main", goid: goid()}
	s.threads[0] = t
	s.nthreads = 1
	s.cur = t
	body()
	t.done = true
	t.op = opDone
	s.schedule(t)
	if !s.aborted {
		spinUntil(&s.allDone)
	}
	S = nil
	return s
}

// Quiet switches choice recording off (setup / teardown phases): the running
// thread continues whenever it can, otherwise the lowest enabled thread runs.
//
//go:norace
func Quiet(q bool) {
	if S != nil {
		S.quiet = q
	}
}

//go:norace
func Now() int64 {
	if S == nil {
		return 0
	}
	S.Step++
	return S.Step
}

//go:norace
func Active() bool { return S != nil }

// Go starts f as a new managed thread (replacement of the go statement).
//
//go:norace
func Go(name string, f func()) int { return spawn(name, f, false) }

// GoClient starts a client thread (JoinClients waits for those).
//
//go:norace
func GoClient(name string, f func()) int { return spawn(name, f, true) }

//go:norace
func spawn(name string, f func(), client bool) int {
	s := S
	if s == nil || s.me() == nil {
		go f()
		return -1
	}
	t := &thread{id: s.nthreads, name: name, op: opStart, client: client}
	s.threads[s.nthreads] = t
	s.nthreads++
	go childMain(s, t, f)
	spinUntil(&t.ready)
	return t.id
}

//go:norace
func childMain(s *Sched, t *thread, f func()) {
	t.goid = goid()
	set(&t.ready)
	spinUntil(&t.turn)
	f()
	t.done = true
	t.op = opDone
	s.schedule(t)
}

//go:norace
func (s *Sched) lockOf(obj any, create bool) *lockState {
	for i := 0; i < s.nlocks; i++ {
		if s.locks[i].obj == obj {
			return &s.locks[i]
		}
	}
	if !create {
		return nil
	}
	s.locks[s.nlocks].obj = obj
	s.nlocks++
	return &s.locks[s.nlocks-1]
}

//go:norace
func (s *Sched) isClosed(obj any) bool {
	for i := 0; i < s.nclosed; i++ {
		if s.closed[i] == obj {
			return true
		}
	}
	return false
}

//go:norace
func (s *Sched) enabled(t *thread) bool {
	if t.done {
		return false
	}
	switch t.op {
	case opPlain, opStart:
		return true
	case opLockW:
		l := s.lockOf(t.obj, false)
		return l == nil || (l.writer == nil && l.nread == 0)
	case opLockR:
		// lock operations are atomic at their scheduling point: a thread parked here has not called RLock yet,
		// so "a blocked Lock excludes new readers" never applies to it (both orders are real behaviours)
		l := s.lockOf(t.obj, false)
		return l == nil || l.writer == nil
	case opSend:
		v := reflect.ValueOf(t.obj)
		if v.Len() < v.Cap() || s.isClosed(t.obj) {
			return true
		}
		for i := 0; i < s.nthreads; i++ {
			o := s.threads[i]
			if o != t && !o.done && o.receivesOn(t.obj) && !o.inRv {
				return true
			}
		}
		return false
	case opSelect:
		if t.inRv {
			return false
		}
		for _, ch := range []any{t.obj, t.obj2} {
			if reflect.ValueOf(ch).Len() > 0 || s.isClosed(ch) {
				return true
			}
		}
		return false
	case opRecv:
		if t.inRv {
			return false
		}
		v := reflect.ValueOf(t.obj)
		return v.Len() > 0 || s.isClosed(t.obj)
	case opJoin:
		for i := 1; i < s.nthreads; i++ {
			o := s.threads[i]
			if o != t && !o.done && o.client {
				return false
			}
		}
		return true
	}
	return false
}

// OnFatal is called (on the goroutine that noticed) when no thread is enabled although not all have
// finished ("deadlock") or when a prefix cannot be replayed ("diverged"). It must not return.
var OnFatal func(kind string, s *Sched)

//go:norace
func (s *Sched) describe(t *thread) string {
	switch t.op {
	case opLockW:
		return t.name + ": blocked in Lock"
	case opLockR:
		return t.name + ": blocked in RLock"
	case opSend:
		return t.name + ": blocked in channel send"
	case opRecv:
		return t.name + ": blocked in channel receive"
	case opSelect:
		return t.name + ": blocked in select"
	case opJoin:
		return t.name + ": waiting for client threads"
	}
	return t.name
}

//go:norace
func (s *Sched) schedule(t *thread) {
	var en [maxThreads]*thread
	n := 0
	runEn := s.enabled(t)
	if runEn {
		en[n] = t
		n++
	}
	for i := 0; i < s.nthreads; i++ {
		o := s.threads[i]
		if o != t && s.enabled(o) {
			en[n] = o
			n++
		}
	}
	if n == 0 {
		for i := 0; i < s.nthreads; i++ {
			if !s.threads[i].done {
				s.Deadlock = true
				k := 0
				for j := 0; j < s.nthreads; j++ {
					if !s.threads[j].done {
						s.DeadInfo[k] = s.describe(s.threads[j])
						k++
					}
				}
				s.aborted = true
				if OnFatal != nil {
					OnFatal("deadlock", s)
				}
				panic(deadlockPanic{})
			}
		}
		set(&s.allDone)
		return
	}
	pick := 0
	if !s.quiet && n > 1 {
		if s.NTrace < len(s.Prefix) {
			pick = s.Prefix[s.NTrace]
			if pick >= n {
				s.Diverged = true
				s.aborted = true
				if OnFatal != nil {
					OnFatal("diverged", s)
				}
				panic(divergePanic{})
			}
		}
		if s.NTrace < maxTrace {
			s.Trace[s.NTrace] = Choice{N: int32(n), RunningEnabled: runEn, Picked: int32(pick), Thread: int32(en[pick].id)}
			s.NTrace++
		}
	}
	next := en[pick]
	if next == t {
		return
	}
	s.cur = next
	set(&next.turn)
	if t.done {
		return
	}
	spinUntil(&t.turn)
}

type deadlockPanic struct{}
type divergePanic struct{}

// IsDeadlock / IsDiverge classify a recovered panic value.
func IsDeadlock(p any) bool { _, ok := p.(deadlockPanic); return ok }
func IsDiverge(p any) bool  { _, ok := p.(divergePanic); return ok }

// Point is a plain scheduling point.
//
//go:norace
func Point() {
	s := S
	if s == nil {
		return
	}
	t := s.me()
	if t == nil {
		return
	}
	t.op = opPlain
	s.schedule(t)
}

// MarkClient tags the calling thread as a client thread (JoinClients waits for those).
//
//go:norace
func MarkClient() {
	if s := S; s != nil {
		if t := s.me(); t != nil {
			t.client = true
		}
	}
}

// JoinClients parks the caller until every thread tagged by MarkClient has finished.
//
//go:norace
func JoinClients() {
	s := S
	if s == nil {
		return
	}
	t := s.me()
	if t == nil {
		return
	}
	t.op = opJoin
	s.schedule(t)
	t.op = opPlain
}

// BeforeLock parks until the model says the lock is free; the caller then takes the real lock.
//
//go:norace
func BeforeLock(m any, write bool) {
	s := S
	if s == nil {
		return
	}
	t := s.me()
	if t == nil {
		return
	}
	if write {
		t.op = opLockW
	} else {
		t.op = opLockR
	}
	t.obj = m
	s.schedule(t)
	l := s.lockOf(m, true)
	if write {
		l.writer = t
	} else {
		l.readers[t.id]++
		l.nread++
	}
	t.op = opPlain
}

//go:norace
func AfterUnlock(m any, write bool) {
	s := S
	if s == nil {
		return
	}
	t := s.me()
	if t == nil {
		return
	}
	l := s.lockOf(m, false)
	if l == nil {
		return
	}
	if write {
		l.writer = nil
	} else {
		l.readers[t.id]--
		l.nread--
	}
}

//go:norace
func sendPre(ch any) (s *Sched, t *thread, r *thread) {
	s = S
	if s == nil {
		return nil, nil, nil
	}
	t = s.me()
	if t == nil {
		return nil, nil, nil
	}
	t.op = opSend
	t.obj = ch
	s.schedule(t)
	v := reflect.ValueOf(ch)
	if v.Len() < v.Cap() || s.isClosed(ch) {
		t.op = opPlain
		return s, t, nil
	}
	for i := 0; i < s.nthreads; i++ {
		o := s.threads[i]
		if o != t && !o.done && o.receivesOn(ch) && !o.inRv {
			r = o
			break
		}
	}
	r.inRv = true
	r.rvObj = ch
	set(&r.turn)
	return s, t, r
}

//go:norace
func sendPost(t *thread) {
	spinUntil(&t.ack)
	t.op = opPlain
}

// Send replaces `ch <- v`.
func Send[T any](ch chan T, v T) {
	_, t, r := sendPre(ch)
	ch <- v
	if r != nil {
		sendPost(t)
	}
}

//go:norace
func recvPre(ch any) (*Sched, *thread, bool) {
	s := S
	if s == nil {
		return nil, nil, false
	}
	t := s.me()
	if t == nil {
		return nil, nil, false
	}
	t.op = opRecv
	t.obj = ch
	s.schedule(t)
	rv := t.inRv
	return s, t, rv
}

//go:norace
func recvPost(s *Sched, t *thread, rv bool) {
	t.op = opPlain
	t.inRv = false
	if rv {
		set(&s.cur.ack)
		spinUntil(&t.turn)
	}
}

// receivesOn: the thread is parked in a receive (or a select with a receive) on ch.
//
//go:norace
func (t *thread) receivesOn(ch any) bool {
	return (t.op == opRecv && t.obj == ch) || (t.op == opSelect && (t.obj == ch || t.obj2 == ch))
}

//go:norace
func selectPre(a, b any) (s *Sched, t *thread, rv bool, which int) {
	s = S
	if s == nil {
		return nil, nil, false, -1
	}
	t = s.me()
	if t == nil {
		return nil, nil, false, -1
	}
	t.op = opSelect
	t.obj, t.obj2 = a, b
	s.schedule(t)
	rv = t.inRv
	switch {
	case rv && t.rvObj == b:
		which = 1
	case rv:
		which = 0
	case reflect.ValueOf(a).Len() > 0 || s.isClosed(a):
		which = 0
	default:
		which = 1
	}
	return s, t, rv, which
}

// Select2 replaces `select { case <-a: ...; case <-b: ... }` (two plain receives, no default) and returns the index
// of the case that was taken. When both are ready the first is taken.
func Select2[A, B any](a chan A, b chan B) int {
	s, t, rv, which := selectPre(a, b)
	if t == nil {
		select {
		case <-a:
			return 0
		case <-b:
			return 1
		}
	}
	if which == 0 {
		<-a
	} else {
		<-b
	}
	selectPost(s, t, rv)
	return which
}

//go:norace
func selectPost(s *Sched, t *thread, rv bool) {
	t.obj2, t.rvObj = nil, nil
	recvPost(s, t, rv)
}

// Recv2 replaces `v, ok := <-ch`.
func Recv2[T any](ch chan T) (T, bool) {
	s, t, rv := recvPre(ch)
	v, ok := <-ch
	if t != nil {
		recvPost(s, t, rv)
	}
	return v, ok
}

// Recv replaces `<-ch`.
func Recv[T any](ch chan T) T {
	v, _ := Recv2(ch)
	return v
}

// Range replaces `for v := range ch`.
func Range[T any](ch chan T) func(yield func(T) bool) {
	return func(yield func(T) bool) {
		for {
			v, ok := Recv2(ch)
			if !ok {
				return
			}
			if !yield(v) {
				return
			}
		}
	}
}

//go:norace
func closePre(ch any) {
	s := S
	if s != nil && s.me() != nil {
		s.closed[s.nclosed] = ch
		s.nclosed++
	}
}

// Close replaces close(ch).
func Close[T any](ch chan T) {
	Point()
	closePre(ch)
	close(ch)
}
