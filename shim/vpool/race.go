//go:build race

package vpool

import (
	"runtime"
	"unsafe"
)

func raceReleaseMerge(p *byte) { runtime.RaceReleaseMerge(unsafe.Pointer(p)) }
func raceAcquire(p *byte)      { runtime.RaceAcquire(unsafe.Pointer(p)) }
