//go:build !race

package vpool

func raceReleaseMerge(p *byte) {}
func raceAcquire(p *byte)      {}
