// Package vpool replaces capnproto's exp/bufferpool inside recordio in the
// scheduler builds: same bucket policy and zero-on-Put, but deterministic LIFO
// reuse (which maximises buffer reuse and so exposes use-after-Put bugs) and a
// scheduling point in Get and Put. Its bookkeeping is invisible to the race
// detector; the Put->Get hand-over of a buffer is announced like sync.Pool does.
package vpool

import (
	"math/bits"

	"verif/shim/vsched"
)

const maxItems = 256

type bucket struct {
	items [maxItems][]byte
	n     int
}

type Pool struct {
	minAlloc int
	nbuckets int
	buckets  [40]bucket
	raceTok  [8]byte
}

func NewPool(minAlloc, bucketCount int) *Pool {
	if minAlloc <= 0 {
		minAlloc = 1024
	}
	if bucketCount <= 0 {
		bucketCount = 20
	}
	return &Pool{minAlloc: minAlloc, nbuckets: bucketCount}
}

func isPowerOf2(i int) bool { return i&(i-1) == 0 }

func bucketToGet(size int) int {
	i := bits.Len(uint(size))
	if isPowerOf2(size) && size > 0 {
		i -= 1
	}
	return i
}

func bucketToPut(size int) int { return bits.Len(uint(size)) - 1 }

// Get a buffer of len(buf) == size and cap >= size.
func (p *Pool) Get(size int) []byte {
	vsched.Point()
	if buf := p.take(size); buf != nil {
		raceAcquire(&p.raceTok[0])
		return buf[:size]
	}
	// like the original: a fresh buffer has the capacity of its bucket
	i := bucketToGet(size)
	if m := bucketToGet(p.minAlloc); i < m {
		i = m
	}
	if i < p.nbuckets {
		return make([]byte, 1<<uint(i))[:size]
	}
	return make([]byte, size)
}

// Put returns the buffer to the pool. The first len(buf) bytes are zeroed
// (by instrumented code, like the original: a late reader races with this).
func (p *Pool) Put(buf []byte) {
	vsched.Point()
	for i := range buf {
		buf[i] = 0
	}
	if cap(buf) < p.minAlloc {
		return
	}
	raceReleaseMerge(&p.raceTok[0])
	p.give(buf[:cap(buf)])
}

//go:norace
func (p *Pool) take(size int) []byte {
	i := bucketToGet(size)
	if i < 0 || i >= p.nbuckets || i >= len(p.buckets) {
		return nil
	}
	// buckets below the minimum allocation are never filled, look at the bucket of minAlloc instead
	if m := bucketToGet(p.minAlloc); i < m {
		i = m
	}
	b := &p.buckets[i]
	if b.n == 0 {
		return nil
	}
	b.n--
	buf := b.items[b.n]
	b.items[b.n] = nil
	return buf
}

//go:norace
func (p *Pool) give(buf []byte) {
	i := bucketToPut(cap(buf))
	if i < 0 || i >= p.nbuckets || i >= len(p.buckets) {
		return
	}
	b := &p.buckets[i]
	if b.n < maxItems {
		b.items[b.n] = buf
		b.n++
	}
}
