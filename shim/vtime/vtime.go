// Package vtime stands in for "time" inside the scheduler-instrumented simpledb build: everything is the real
// package except the ticker, whose ticks are delivered by the harness (Fire) as scheduler-visible channel sends,
// so "the compaction timer fires now" is an enumerable event instead of wall-clock nondeterminism.
package vtime

import (
	"time"

	"verif/shim/vsched"
)

type Duration = time.Duration
type Time = time.Time

const (
	Nanosecond  = time.Nanosecond
	Microsecond = time.Microsecond
	Millisecond = time.Millisecond
	Second      = time.Second
	Minute      = time.Minute
	Hour        = time.Hour
)

func Now() Time             { return time.Now() }
func Since(t Time) Duration { return time.Since(t) }
func Sleep(d Duration)      { time.Sleep(d) }
func Until(t Time) Duration { return time.Until(t) }

// Ticker has the shape of time.Ticker; C only ever receives what Fire sends.
type Ticker struct {
	C       chan Time
	stopped bool
}

var tickers []*Ticker

func NewTicker(d Duration) *Ticker {
	if d <= 0 {
		panic("non-positive interval for NewTicker")
	}
	t := &Ticker{C: make(chan Time, 1)}
	tickers = append(tickers, t)
	return t
}

func (t *Ticker) Stop()            { t.stopped = true }
func (t *Ticker) Reset(d Duration) { t.stopped = false }

// Reset forgets all tickers (called by the harness at the start of an execution).
func ResetAll() { tickers = nil }

// Fire delivers one tick to every running ticker; like the runtime, it drops the tick when the previous one
// has not been consumed yet.
func Fire() int {
	n := 0
	for _, t := range tickers {
		vsched.Point()
		if t.stopped || len(t.C) == cap(t.C) {
			continue
		}
		vsched.Send(t.C, time.Time{})
		n++
	}
	return n
}
