#!/bin/bash
# builds bin/vinstr, the overlay(s) generated from the current /repo files, and the checker binaries
set -eu
cd "$(dirname "$0")"
export GOFLAGS=-mod=mod GOPROXY=off
unset GOTOOLCHAIN GOSUMDB 2>/dev/null || true
mkdir -p bin scratch
go build -o bin/vinstr ./cmd/vinstr
bin/vinstr -repo /repo -out scratch/ov-base -mode base
go build -tags verif -overlay scratch/ov-base/overlay.json -o bin/vcheck ./cmd/vcheck
go build -tags verif -overlay scratch/ov-base/overlay.json -o bin/vchild ./cmd/vchild
