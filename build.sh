#!/bin/bash
# builds bin/vinstr, the overlay(s) generated from the current /repo files, and the checker binaries
set -eu
cd "$(dirname "$0")"
export GOFLAGS=-mod=mod GOPROXY=off
unset GOTOOLCHAIN GOSUMDB 2>/dev/null || true
mkdir -p bin _scratch
go build -o bin/vinstr ./cmd/vinstr
bin/vinstr -repo /repo -out _scratch/ov-base -mode base
go build -tags verif -overlay _scratch/ov-base/overlay.json -o bin/vcheck ./cmd/vcheck
go build -tags verif -overlay _scratch/ov-base/overlay.json -o bin/vchild ./cmd/vchild
if [ "${1:-all}" = "all" ] || [ "${1:-}" = "C05" ] || [ "${1:-}" = "C18" ]; then
  bin/vinstr -repo /repo -out _scratch/ov-sched -mode sched
  go build -tags verif -overlay _scratch/ov-sched/overlay.json -o bin/vsched ./cmd/vcheck
fi
if [ "${1:-all}" = "all" ] || [ "${1:-}" = "C18" ]; then
  go build -race -tags verif -overlay _scratch/ov-sched/overlay.json -o bin/vsched-race ./cmd/vcheck
  bin/vinstr -repo /repo -out _scratch/ov-schedfine -mode schedfine
  go build -race -tags verif -overlay _scratch/ov-schedfine/overlay.json -o bin/vschedfine-race ./cmd/vcheck
fi
