#!/bin/bash
# builds bin/vinstr, the overlay(s) generated from the current /repo files, and the checker binaries
set -eu
cd "$(dirname "$0")"
export GOFLAGS=-mod=mod GOPROXY=off
unset GOTOOLCHAIN GOSUMDB 2>/dev/null || true
mkdir -p bin _scratch
# VERIF_REPO: build against another checkout of the repository than /repo (used for background sweeps on a snapshot)
REPO="${VERIF_REPO:-/repo}"
MODFLAG=""
if [ "$REPO" != "/repo" ]; then
  sed "s#=> /repo\$#=> $REPO#" go.mod > _scratch/alt.mod
  cp go.sum _scratch/alt.sum
  MODFLAG="-modfile=$PWD/_scratch/alt.mod"
fi
go build -o bin/vinstr ./cmd/vinstr
bin/vinstr -repo $REPO -out _scratch/ov-base -mode base
go build $MODFLAG -tags verif -overlay _scratch/ov-base/overlay.json -o bin/vcheck ./cmd/vcheck
go build $MODFLAG -tags verif -overlay _scratch/ov-base/overlay.json -o bin/vchild ./cmd/vchild
if [ "${1:-all}" = "all" ] || [ "${1:-}" = "C05" ] || [ "${1:-}" = "C18" ] || [ "${1:-}" = "C19" ]; then
  bin/vinstr -repo $REPO -out _scratch/ov-sched -mode sched
  go build $MODFLAG -tags verif -overlay _scratch/ov-sched/overlay.json -o bin/vsched ./cmd/vcheck
fi
if [ "${1:-all}" = "all" ] || [ "${1:-}" = "C05" ]; then
  # C05's reader-level scenario: the finer instrumentation without the race detector
  bin/vinstr -repo $REPO -out _scratch/ov-schedfine -mode schedfine
  go build $MODFLAG -tags verif -overlay _scratch/ov-schedfine/overlay.json -o bin/vschedfine ./cmd/vcheck
fi
if [ "${1:-all}" = "all" ] || [ "${1:-}" = "C18" ]; then
  go build $MODFLAG -race -tags verif -overlay _scratch/ov-sched/overlay.json -o bin/vsched-race ./cmd/vcheck
  bin/vinstr -repo $REPO -out _scratch/ov-schedfine -mode schedfine
  go build $MODFLAG -race -tags verif -overlay _scratch/ov-schedfine/overlay.json -o bin/vschedfine-race ./cmd/vcheck
fi
